// Package scn holds the data types shared by the orchestrator (verif-check) and
// the simulated-run executor (simnode): an explicit scenario goes in, a result
// comes out. A replay file is a Scenario whose schedule and fault tapes are
// filled in, plus the violation it must reproduce.
package scn

// Scenario is everything one simulated run depends on besides the code.
type Scenario struct {
	Prop    string `json:"prop"`           // C11 | C13 | C18
	Kind    string `json:"kind"`           // C11: A | B | C ; C13: hist ; C18: pools | parse
	RunSeed uint64 `json:"run_seed"`       // informational: the seed it was generated from
	Sched   Sched  `json:"sched"`          // schedule source
	Faults  Faults `json:"faults"`         // fault source
	Knob    int    `json:"knob,omitempty"` // DefaultBlockSize for this run (0: compiled-in)

	Theme  string  `json:"theme,omitempty"` // informational: feature class the inputs were drawn from
	Light  bool    `json:"light,omitempty"` // C11: no full dump at the end of each pipeline (the tree fingerprint is still compared)
	Inputs []Input `json:"inputs,omitempty"`
	Tasks  []Task  `json:"tasks,omitempty"`

	// C11 kind B / C
	Workers  int      `json:"workers,omitempty"`
	QueueCap int      `json:"queue_cap,omitempty"`
	CLIFlags []string `json:"cli_flags,omitempty"`
	CLIPaths []string `json:"cli_paths,omitempty"` // relative to the scratch tree ("." if empty)
	// kind C: file-system faults met by the program (the per-file reference
	// runs meet none)
	FSFaults []FSFault `json:"fs_faults,omitempty"`

	// C13
	History []Op `json:"history,omitempty"`

	// C18
	PoolTasks []PoolTask `json:"pool_tasks,omitempty"`
}

type Sched struct {
	Mode      int        `json:"mode"` // zzsim.Mode*
	Seed      uint64     `json:"seed"`
	Mean      uint64     `json:"mean,omitempty"`
	Depth     int        `json:"depth,omitempty"`
	Horizon   int64      `json:"horizon,omitempty"`
	SiteClass string     `json:"site_class,omitempty"`
	Replay    bool       `json:"replay,omitempty"`
	Tape      [][2]int64 `json:"tape,omitempty"`
	Pipe      bool       `json:"pipe,omitempty"`
	// ClockTick: simulated nanoseconds that pass per step (0: the simulated clock
	// only moves when no task can run, or by an injected jump). Only drawn when
	// the tree under test waits on the clock.
	ClockTick int64 `json:"clock_tick,omitempty"`
}

type Faults struct {
	Seed    uint64  `json:"seed"`
	Replay  bool    `json:"replay,omitempty"`
	Tape    []int64 `json:"tape,omitempty"`
	GCSteps []int64 `json:"gc_steps,omitempty"`
	// Stalls: stall faults (task id, from step, to step): the task is not chosen
	// to run in that window while any other task can run
	Stalls [][3]int64 `json:"stalls,omitempty"`
	// ClockJumps: injected clock jumps (step, nanoseconds forward)
	ClockJumps [][2]int64 `json:"clock_jumps,omitempty"`
}

type Input struct {
	Name     string `json:"name"`
	Src      []byte `json:"src"`
	Version  string `json:"version"` // "" = nil (package default)
	Callback bool   `json:"callback"`
	Path     string `json:"path,omitempty"` // kind C: file path relative to the scratch tree
	// AbortAt > 0: the caller's error callback panics when it is called for the
	// AbortAt-th time (a caller aborting the parse from inside its callback);
	// the pipeline recovers and records the abort as its outcome
	AbortAt int `json:"abort_at,omitempty"`
}

// FSFault: an I/O error of the simulated program on one file.
//
//	write-err : every WriteFile of the file fails with EACCES, nothing is written
//	write-torn: WriteFile of the file stores the first half of the data, then fails with ENOSPC
//	read-err  : every ReadFile of the file fails with EACCES
type FSFault struct {
	Path string `json:"path"` // relative to the scratch tree
	Kind string `json:"kind"`
}

type Task struct {
	Pipelines []Pipeline `json:"pipelines"`
}

type Pipeline struct {
	Input        int  `json:"input"`
	ShareVersion bool `json:"share_version,omitempty"`
	Ops          []Op `json:"ops"`
	// Keep: what the caller holds on to when the pipeline is over. "" = the
	// root; "sub" = only one statement of the root (the root itself and the
	// rest of the tree become garbage); "subgc" = the same, and a garbage
	// collection runs right away.
	Keep string `json:"keep,omitempty"`
}

// Op kinds: print, dump, dumpT, dumpP, dumpTP, traverse, resolve, gc
type Op struct {
	Kind  string  `json:"kind"`
	Fault *WFault `json:"fault,omitempty"`
	// Sub > 0 (C13): the operation is applied to statement (Sub-1) mod n of the
	// root instead of to the root (printing, dumping, traversing or resolving a
	// part of a tree must leave the whole tree unchanged too). Sub < 0: applied to
	// vertex number (-Sub-1) mod n of the tree in pre-order (any inner vertex:
	// an expression, a name, a class member ...). Also used by C11 pipelines.
	Sub int `json:"sub,omitempty"`
}

// WFault is a fault of the io.Writer handed to a printer or dumper.
type WFault struct {
	Kind string `json:"kind"` // err | errsticky | short | panic
	At   int    `json:"at"`   // index of the Write call that fails
}

// C18
type PoolTask struct {
	Pools []PoolSpec `json:"pools"`
	Ops   []PoolOp   `json:"ops"`
	// Relay: the operations are executed by two simulated tasks taking turns
	// (the pools are created by one goroutine and used by another, handed over
	// under a mutex)
	Relay bool `json:"relay,omitempty"`
}

type PoolSpec struct {
	Type  string `json:"type"` // token | position
	Block int    `json:"block"`
}

// PoolOp kinds: get (N times from pool P), rr (N rounds, one object from every
// pool of the task in turn), write (object index Arg of pool P),
// verify, drop (forget every Arg-th live object of pool P), gc
type PoolOp struct {
	Kind string `json:"kind"`
	Pool int    `json:"pool,omitempty"`
	N    int    `json:"n,omitempty"`
	Arg  int    `json:"arg,omitempty"`
}

// Violation is one oracle failure inside a run.
type Violation struct {
	Oracle string `json:"oracle"` // O1-equals-alone, O2-race, O3-stale, O4-progress, H1-output, H2-tree, ...
	Sig    string `json:"sig"`    // stable signature used to match known findings and while minimising
	Detail string `json:"detail"`
}

// Result is what simnode writes after a run.
type Result struct {
	Prop       string      `json:"prop"`
	RunSeed    uint64      `json:"run_seed"`
	Violations []Violation `json:"violations,omitempty"`
	Infra      string      `json:"infra,omitempty"` // non-empty: infrastructure trouble, not a verdict

	Steps        int64  `json:"steps"`
	RefSteps     int64  `json:"ref_steps"`
	Switches     int64  `json:"switches"`
	Preemptions  int64  `json:"preemptions"`
	ForcedYields int64  `json:"forced_yields"`
	Decisions    int    `json:"decisions"`
	EventHash    string `json:"event_hash"`
	OutcomeHash  string `json:"outcome_hash"`
	Tasks        int    `json:"tasks"`
	Ops          int    `json:"ops"`
	NonTrivial   bool   `json:"nontrivial"`

	Faults map[string]int64 `json:"faults,omitempty"` // fired counts per kind
	Probes map[string]int64 `json:"probes,omitempty"`

	SitesHit    []int `json:"sites_hit,omitempty"`
	SitesSwitch []int `json:"sites_switch,omitempty"`

	IsoChecked int      `json:"iso_checked,omitempty"`
	PipeHashes []string `json:"pipe_hashes,omitempty"` // C11: per flattened pipeline, hash of all it observed

	Tape      [][2]int64 `json:"tape,omitempty"`
	FaultTape []int64    `json:"fault_tape,omitempty"`
	Trace     []string   `json:"trace,omitempty"`
	KnobState string     `json:"knob_state,omitempty"`
}

// Replay is the file written for a violation.
type Replay struct {
	Property  string    `json:"property"`
	Signature string    `json:"signature"`
	Oracle    string    `json:"oracle"`
	Detail    string    `json:"detail"`
	RepoHead  string    `json:"repo_head"`
	RepoDiff  string    `json:"repo_diff_hash"`
	Minimised bool      `json:"minimised"`
	// Flaky: the violation showed in some executions of this scenario only (the
	// code under test is nondeterministic by itself); replay executes the file
	// several times
	Flaky bool `json:"flaky,omitempty"`
	Steps     []string  `json:"decoded_trace,omitempty"`
	Scenario  *Scenario `json:"scenario"`
}
