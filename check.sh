#!/bin/bash
# Entry point registered in MANIFEST.json: ./check.sh <C11|C13|C18|selftest> [--tier quick|thorough] [--replay FILE]
# Rebuilds the orchestrator from /verif's sources if needed, then runs it; the
# orchestrator rebuilds the instrumented simulator from /repo's working tree.
set -u
cd "$(dirname "$0")"
export GOFLAGS=-mod=mod GOPROXY=off GOSUMDB=off GOTOOLCHAIN=local
export VERIF_DIR="$PWD"
mkdir -p bin
if ! go build -o bin/verif-instrument ./cmd/verif-instrument || ! go build -o bin/verif-check ./cmd/verif-check; then
  echo "check.sh: INFRASTRUCTURE TROUBLE: cannot build the verification tools" >&2
  exit 2
fi
exec bin/verif-check "$@"
