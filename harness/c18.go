package main

import (
	"strconv"
	"unsafe"

	"verif/scn"

	"github.com/z7zmey/php-parser/pkg/position"
	"github.com/z7zmey/php-parser/pkg/token"
	"github.com/z7zmey/php-parser/pkg/zzsim"
	zsync "github.com/z7zmey/php-parser/pkg/zzsimsync"
)

// ---- reference model of one pool: every object ever returned, with the stamp
// last written through it. Objects are kept alive for the whole run, so an
// address can never be legitimately reused.
type poolModel struct {
	spec  scn.PoolSpec
	tp    *token.Pool
	pp    *position.Pool
	toks  []*token.Token
	poss  []*position.Position
	stamp []uint64
	priv  [][]byte // the private Value slice written into token i
	ppos  []*position.Position
}

func (m *poolModel) n() int { return len(m.stamp) }

func stampToken(t *token.Token, st uint64) ([]byte, *position.Position) {
	v := []byte(strconv.FormatUint(st, 16))
	p := &position.Position{StartLine: int(st & 0xffff), EndLine: int(st >> 16 & 0xffff), StartPos: int(st >> 32 & 0xffff), EndPos: int(st >> 48)}
	t.ID = token.ID(st%250 + 1)
	t.Value = v
	t.Position = p
	t.FreeFloating = make([]*token.Token, int(st%3))
	return v, p
}

func tokenHolds(t *token.Token, st uint64, v []byte, p *position.Position) bool {
	if t.ID != token.ID(st%250+1) || t.Position != p || len(t.FreeFloating) != int(st%3) {
		return false
	}
	if len(t.Value) != len(v) || (len(v) > 0 && &t.Value[0] != &v[0]) || string(t.Value) != strconv.FormatUint(st, 16) {
		return false
	}
	return p.StartLine == int(st&0xffff) && p.EndPos == int(st>>48)
}

func stampPos(p *position.Position, st uint64) {
	p.StartLine, p.EndLine, p.StartPos, p.EndPos = int(st&0xffff), int(st>>16&0xffff), int(st>>32&0xffff), int(st>>48)
}

func posHolds(p *position.Position, st uint64) bool {
	return p.StartLine == int(st&0xffff) && p.EndLine == int(st>>16&0xffff) && p.StartPos == int(st>>32&0xffff) && p.EndPos == int(st>>48)
}

type poolTaskState struct {
	models []*poolModel
	viol   []scn.Violation
	gets   int
	bounds int
}

func (ts *poolTaskState) add(oracle, sig, detail string) {
	if len(ts.viol) < 4 {
		ts.viol = append(ts.viol, scn.Violation{Oracle: oracle, Sig: sig, Detail: detail})
	}
}

func (ts *poolTaskState) verify(ti int, when string) bool {
	for pi, m := range ts.models {
		for i := 0; i < m.n(); i++ {
			ok := false
			if m.spec.Type == "token" {
				ok = tokenHolds(m.toks[i], m.stamp[i], m.priv[i], m.ppos[i])
			} else {
				ok = posHolds(m.poss[i], m.stamp[i])
			}
			if !ok {
				ts.add("P2-stays-valid", "object-changed:"+m.spec.Type, "task "+strconv.Itoa(ti)+" pool "+strconv.Itoa(pi)+" ("+m.spec.Type+", block "+strconv.Itoa(m.spec.Block)+"): object #"+strconv.Itoa(i)+" of "+strconv.Itoa(m.n())+" no longer holds what was written through it ("+when+")")
				return false
			}
		}
	}
	return true
}

// poolRun executes the operations of one pool task. Its steps are methods so
// that one task's operations can be executed by a single simulated task or - in
// relay runs - by two simulated tasks taking turns (a pool created by one
// goroutine and used by another, handed over with proper synchronisation).
type poolRun struct {
	ti   int
	pt   *scn.PoolTask
	ts   *poolTaskState
	seen map[unsafe.Pointer]int
	next uint64
	dead bool // a violation ended the task
}

func (pr *poolRun) guard() {
	zzsim.BeginOp(zzsim.Inf)
	if r := recover(); r != nil {
		pr.dead = true
		pr.ts.add("P0-get-returns", "get-panicked", "task "+strconv.Itoa(pr.ti)+": "+short(panicText(r), 200))
	}
}

func (pr *poolRun) create() {
	defer pr.guard()
	for _, sp := range pr.pt.Pools {
		m := &poolModel{spec: sp}
		zzsim.BeginOp(100000 + 100*int64(sp.Block))
		if sp.Type == "token" {
			m.tp = token.NewPool(sp.Block)
		} else {
			m.pp = position.NewPool(sp.Block)
		}
		pr.ts.models = append(pr.ts.models, m)
	}
}

// getOne takes one object from pool m and checks it against the model.
func (pr *poolRun) getOne(m *poolModel, oi int) bool {
	ts, ti := pr.ts, pr.ti
	zzsim.BeginOp(100000 + 100*int64(m.spec.Block))
	var ptr unsafe.Pointer
	pr.next++
	if m.spec.Type == "token" {
		t := m.tp.Get()
		zzsim.BeginOp(zzsim.Inf)
		if t == nil {
			ts.add("P0-get-returns", "get-nil:token", "task "+strconv.Itoa(ti)+" op "+strconv.Itoa(oi)+": token pool (block "+strconv.Itoa(m.spec.Block)+") returned nil on request #"+strconv.Itoa(m.n()+1))
			return false
		}
		ptr = unsafe.Pointer(t)
		if j, dup := pr.seen[ptr]; dup {
			ts.add("P1-distinct", "duplicate:token", "task "+strconv.Itoa(ti)+" op "+strconv.Itoa(oi)+": token pool (block "+strconv.Itoa(m.spec.Block)+") request #"+strconv.Itoa(m.n()+1)+" returned the object already returned as #"+strconv.Itoa(j+1))
			return false
		}
		v, p := stampToken(t, pr.next)
		m.toks, m.priv, m.ppos = append(m.toks, t), append(m.priv, v), append(m.ppos, p)
	} else {
		p := m.pp.Get()
		zzsim.BeginOp(zzsim.Inf)
		if p == nil {
			ts.add("P0-get-returns", "get-nil:position", "task "+strconv.Itoa(ti)+" op "+strconv.Itoa(oi)+": position pool (block "+strconv.Itoa(m.spec.Block)+") returned nil on request #"+strconv.Itoa(m.n()+1))
			return false
		}
		ptr = unsafe.Pointer(p)
		if j, dup := pr.seen[ptr]; dup {
			ts.add("P1-distinct", "duplicate:position", "task "+strconv.Itoa(ti)+" op "+strconv.Itoa(oi)+": position pool (block "+strconv.Itoa(m.spec.Block)+") request #"+strconv.Itoa(m.n()+1)+" returned the object already returned as #"+strconv.Itoa(j+1))
			return false
		}
		stampPos(p, pr.next)
		m.poss = append(m.poss, p)
	}
	if len(pr.seen) < 1500000 {
		// (beyond that the map is dropped for memory's sake: an object handed
		// out twice is still found, by the stamp check, when the run verifies)
		pr.seen[ptr] = m.n()
	}
	m.stamp = append(m.stamp, pr.next)
	ts.gets++
	if m.n() > 1 && (m.n()-1)%m.spec.Block == 0 {
		ts.bounds++
	}
	return true
}

// step executes operation oi; false: the task is over (violation).
func (pr *poolRun) step(oi int) (ok bool) {
	defer pr.guard()
	ts, ti := pr.ts, pr.ti
	op := pr.pt.Ops[oi]
	switch op.Kind {
	case "get":
		m := ts.models[op.Pool]
		for k := 0; k < op.N; k++ {
			if !pr.getOne(m, oi) {
				return false
			}
		}
	case "rr":
		// the way the lexer uses its pools: one object from every pool of the
		// task in turn, op.N rounds (the pools cross their block boundaries at
		// different moments)
		for k := 0; k < op.N; k++ {
			for _, m := range ts.models {
				if !pr.getOne(m, oi) {
					return false
				}
			}
		}
		zzsim.AddProbe(probePoolsInTurn, 1)
	case "write":
		m := ts.models[op.Pool]
		if m.n() == 0 {
			return true
		}
		i := op.Arg % m.n()
		pr.next++
		if m.spec.Type == "token" {
			m.priv[i], m.ppos[i] = stampToken(m.toks[i], pr.next)
		} else {
			stampPos(m.poss[i], pr.next)
		}
		m.stamp[i] = pr.next
		// neighbours first (cheap), full verification at verify ops
		for d := -2; d <= 2; d++ {
			j := i + d
			if j < 0 || j >= m.n() {
				continue
			}
			ok := true
			if m.spec.Type == "token" {
				ok = tokenHolds(m.toks[j], m.stamp[j], m.priv[j], m.ppos[j])
			} else {
				ok = posHolds(m.poss[j], m.stamp[j])
			}
			if !ok {
				ts.add("P2-stays-valid", "object-changed:"+m.spec.Type, "task "+strconv.Itoa(ti)+" op "+strconv.Itoa(oi)+": writing through object #"+strconv.Itoa(i+1)+" changed object #"+strconv.Itoa(j+1)+" (block "+strconv.Itoa(m.spec.Block)+")")
				return false
			}
		}
	case "verify":
		if !ts.verify(ti, "verify op "+strconv.Itoa(oi)) {
			return false
		}
	case "renew":
		// the caller lets go of the pool and keeps every object it got from
		// it; a new pool of the same kind and block size takes its place
		m := ts.models[op.Pool]
		zzsim.BeginOp(100000 + 100*int64(m.spec.Block))
		if m.spec.Type == "token" {
			m.tp = token.NewPool(m.spec.Block)
		} else {
			m.pp = position.NewPool(m.spec.Block)
		}
		zzsim.BeginOp(zzsim.Inf)
		zzsim.AddProbe(probePoolRenewed, 1)
	case "gc":
		zzsim.ForceGC()
		if !ts.verify(ti, "after forced GC at op "+strconv.Itoa(oi)) {
			return false
		}
	}
	return true
}

func runPoolTask(ti int, pt *scn.PoolTask, ts *poolTaskState, stampBase uint64) {
	pr := &poolRun{ti: ti, pt: pt, ts: ts, seen: map[unsafe.Pointer]int{}, next: stampBase}
	pr.create()
	for oi := range pt.Ops {
		if pr.dead || !pr.step(oi) || pr.dead {
			return
		}
	}
	ts.verify(ti, "end of task")
}

// runPoolRelay: the same operations executed by TWO simulated tasks taking turns
// (operation i by task i mod 2). The baton is a real mutex, so every hand-over
// of the pools is properly synchronised: a pool created by one goroutine and
// used by another is supported usage, and nothing here is a data race.
func runPoolRelay(ti int, pt *scn.PoolTask, ts *poolTaskState, stampBase uint64) {
	pr := &poolRun{ti: ti, pt: pt, ts: ts, seen: map[unsafe.Pointer]int{}, next: stampBase}
	var mu zsync.Mutex
	turn, over := -1, false // -1: the pools are still to be created (by runner 1)
	runner := func(me int) {
		for {
			mu.Lock()
			switch {
			case over || turn >= len(pt.Ops):
				mu.Unlock()
				return
			case turn == -1 && me == 1:
				pr.create()
				turn, over = 0, pr.dead
				zzsim.AddProbe(probePoolHandedOver, 1)
			case turn >= 0 && turn%2 == me:
				if !pr.step(turn) || pr.dead {
					over = true
				}
				turn++
				if turn >= len(pt.Ops) && !over {
					ts.verify(ti, "end of task")
				}
			default:
				mu.Unlock()
				zzsim.Blocked()
				continue
			}
			mu.Unlock()
			zzsim.Progress()
		}
	}
	zzsim.Spawn(func() { runner(0) })
	zzsim.Spawn(func() { runner(1) })
}

func runC18(s *scn.Scenario, res *scn.Result) {
	switch s.Kind {
	case "pools":
		runC18Pools(s, res)
	case "parse":
		runC18Parse(s, res)
	default:
		res.Infra = "unknown C18 scenario kind " + s.Kind
	}
}

func runC18Pools(s *scn.Scenario, res *scn.Result) {
	states := make([]*poolTaskState, len(s.PoolTasks))
	zzsim.Init(simConfig(s))
	markSites(s.Sched.SiteClass)
	for i := range s.PoolTasks {
		i := i
		states[i] = &poolTaskState{}
		if s.PoolTasks[i].Relay {
			runPoolRelay(i, &s.PoolTasks[i], states[i], uint64(i+1)<<40)
			continue
		}
		zzsim.Spawn(func() { runPoolTask(i, &s.PoolTasks[i], states[i], uint64(i+1)<<40) })
	}
	zzsim.Run()
	if zzsim.StuckOutside {
		res.Infra = "a task blocked outside the simulator"
		return
	}
	snapshotPhase1(res)
	// after every task finished: everything every task holds is still intact
	// (pools of different tasks must not share memory) and pointers are
	// distinct across ALL pools of the run
	all := map[unsafe.Pointer]string{}
	outcome := uint64(0xcbf29ce484222325)
	for ti, ts := range states {
		if len(ts.viol) == 0 {
			ts.verify(ti, "after all tasks finished")
		}
		res.Violations = append(res.Violations, ts.viol...)
		res.Ops += ts.gets
		zzsim.AddProbe(probeBlockBoundary, int64(ts.bounds))
		if ts.bounds > 0 {
			res.NonTrivial = true
		}
		for pi, m := range ts.models {
			outcome = (outcome ^ uint64(m.n())) * 0x100000001b3
			for i := 0; i < m.n(); i++ {
				var ptr unsafe.Pointer
				if m.spec.Type == "token" {
					ptr = unsafe.Pointer(m.toks[i])
				} else {
					ptr = unsafe.Pointer(m.poss[i])
				}
				me := "task " + strconv.Itoa(ti) + " pool " + strconv.Itoa(pi) + " #" + strconv.Itoa(i+1)
				if other, dup := all[ptr]; dup && len(ts.viol) == 0 {
					res.Violations = append(res.Violations, scn.Violation{Oracle: "P1-distinct", Sig: "shared-between-pools:" + m.spec.Type, Detail: me + " is the same object as " + other})
					break
				}
				all[ptr] = me
			}
		}
	}
	res.OutcomeHash = strconv.FormatUint(outcome, 16)
}

// runC18Parse: the parser's own use of the pools. The same inputs are parsed
// with DefaultBlockSize = knob (concurrently) and then with the compiled-in
// size (alone); every token and position lives in pool blocks, so the full
// dumps and tree fingerprints must be identical whatever the block size.
func runC18Parse(s *scn.Scenario, res *scn.Result) {
	if !knobAvailable {
		res.Infra = "block-size knob unavailable in this tree"
		return
	}
	pipes := flatten(s)
	recs := make([]*pipeRec, len(pipes))
	refs := make([]*pipeRec, len(pipes))
	for i := range recs {
		recs[i], refs[i] = &pipeRec{}, &pipeRec{}
	}
	zzsim.Init(simConfig(s))
	applyKnob(s.Knob)
	zzsim.MinBlock = 1 << 62
	markSites(s.Sched.SiteClass)
	k := 0
	for t := range s.Tasks {
		lo, hi := k, k+len(s.Tasks[t].Pipelines)
		k = hi
		zzsim.Spawn(func() {
			for i := lo; i < hi; i++ {
				runParse(s, pipes[i].pl, recs[i])
				runOps(s, pipes[i].pl, recs[i])
			}
		})
	}
	zzsim.Run()
	if zzsim.StuckOutside {
		res.Infra = "a task blocked outside the simulator"
		return
	}
	snapshotPhase1(res)
	if zzsim.MinBlock < 1 {
		// with DefaultBlockSize = knob the tree asked for a pool with a
		// non-positive block size (it derives sizes from the constant): the pools
		// promise nothing for such a size, and the tree never meets it with its
		// real constant. Not judged.
		res.Probes["knob_made_the_tree_request_a_nonpositive_block_size"]++
		res.OutcomeHash = "knob-artefact"
		return
	}
	zzsim.Init(refConfig(s))
	applyKnob(0)
	zzsim.Spawn(func() {
		for i := range pipes {
			runParse(s, pipes[i].pl, refs[i])
			runOps(s, pipes[i].pl, refs[i])
		}
	})
	zzsim.Run()
	zzsim.Init(refConfig(s))
	zzsim.Spawn(func() {
		for i := range pipes {
			if recs[i].done {
				recs[i].redump = fullDump(recs[i].parse.root, len(s.Inputs[pipes[i].pl.Input].Src))
			}
		}
	})
	zzsim.Run()
	outcome := uint64(0xcbf29ce484222325)
	for i := range pipes {
		g, w := recs[i], refs[i]
		in := &s.Inputs[pipes[i].pl.Input]
		id := "input " + in.Name + " (version " + strconv.Quote(in.Version) + ", " + strconv.Itoa(len(in.Src)) + " bytes) parsed with block size " + strconv.Itoa(s.Knob)
		outcome = (outcome ^ strHash(g.dump)) * 0x100000001b3
		add := func(sig, detail string) {
			res.Violations = append(res.Violations, scn.Violation{Oracle: "P3-parse-independent-of-block-size", Sig: sig, Detail: id + ": " + detail})
		}
		switch {
		case !g.done:
			add("parse-not-completed", "pipeline did not complete")
		case g.parse.out != w.parse.out:
			add("parse-outcome", "outcome "+strconv.Quote(short(g.parse.out, 100))+" vs "+strconv.Quote(short(w.parse.out, 100))+" with the default block size")
		case g.parse.errs != w.parse.errs:
			add("parse-errors", "errors differ "+firstDiff(g.parse.errs, w.parse.errs))
		case g.fp != w.fp:
			add("tree-fingerprint", "tree differs from the one built with the default block size")
		case g.dump != w.dump:
			add("dump", "full dump differs "+firstDiff(g.dump, w.dump))
		case g.redump != w.dump:
			add("stale-dump", "dump after all tasks finished differs "+firstDiff(g.redump, w.dump))
		}
		// rough count of block boundaries this parse crossed
		if s.Knob > 0 && g.parse.root != nil {
			if n := countTokens(g.parse.root) / s.Knob; n > 0 {
				zzsim.AddProbe(probeBlockBoundary, int64(n))
				res.NonTrivial = true
			}
		}
		res.Ops++
	}
	res.OutcomeHash = strconv.FormatUint(outcome, 16)
}
