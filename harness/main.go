// simnode executes ONE explicit scenario under the simulator and writes a
// result file. One OS process per simulated run (DESIGN.md §2.2).
package main

import (
	"encoding/json"
	"flag"
	"fmt"
	"os"
	"runtime"
	"runtime/debug"
	"strconv"

	"verif/scn"

	"github.com/z7zmey/php-parser/pkg/zzsim"
)

const (
	probePoolMiss = iota // zzsim.ProbePoolMiss
	probePoolDrop        // zzsim.ProbePoolDrop
	probeTreeHandedOver
	probeWriterErr
	probeWriterShort
	probeWriterPanic
	probeDumperPanicTaken
	probePrinterContinued
	probeBlockBoundary
	probeNondetReference
	probeErrCallback
	probeVisitorAbort
	probeC11OpFault
	probeCallbackAbort
	probePoolRenewed
	probeSubtreeKept
	probeC11OpOnPart
	probePoolsInTurn
	probePoolHandedOver
)

var probeNames = map[int]string{
	probePoolMiss: "syncpool_miss", probePoolDrop: "syncpool_drop", probeTreeHandedOver: "tree_handed_between_tasks",
	probeWriterErr: "writer_error_fired", probeWriterShort: "writer_short_write_fired", probeWriterPanic: "writer_panic_fired",
	probeDumperPanicTaken: "dumper_write_error_panic_taken", probePrinterContinued: "printer_continued_after_write_error",
	probeBlockBoundary: "pool_block_boundary_crossed", probeNondetReference: "nondeterministic_reference",
	probeErrCallback: "error_callback_fired", probeVisitorAbort: "visitor_abort_fired", probeC11OpFault: "operation_aborted_by_writer_fault_or_visitor_abort", probeCallbackAbort: "parse_aborted_by_panicking_error_callback",
	probePoolRenewed: "pool_dropped_and_replaced_while_objects_kept",
	probeSubtreeKept: "root_dropped_one_statement_kept",
	probeC11OpOnPart: "operation_applied_to_a_part_of_the_tree",
	probePoolsInTurn: "objects_taken_from_every_pool_of_a_task_in_turn", probePoolHandedOver: "pools_created_by_one_task_and_used_by_another",
}

var (
	wantTape   = flag.Bool("tape", false, "include the recorded schedule and fault tapes in the result")
	eventsPath = flag.String("events", "", "write the full event log to this file")
)

func snapshotPhase1(res *scn.Result) {
	res.Steps = zzsim.Steps
	res.Switches = zzsim.Switches
	res.Preemptions = zzsim.Preemptions
	res.ForcedYields = zzsim.ForcedYields
	res.Decisions = zzsim.NEvents
	res.EventHash = strconv.FormatUint(zzsim.EventHash, 16)
	for i := 0; i < zzsim.MaxSites; i++ {
		if zzsim.SiteHit[i] != 0 {
			res.SitesHit = append(res.SitesHit, i)
		}
		if zzsim.SiteSwitch[i] != 0 {
			res.SitesSwitch = append(res.SitesSwitch, i)
		}
	}
	if zzsim.LeftBehind > 0 {
		res.Probes["goroutines_of_the_code_under_test_left_waiting_at_the_end"] = zzsim.LeftBehind
	}
	if zzsim.Rendezvous > 0 {
		res.Probes["unbuffered_channel_rendezvous"] = zzsim.Rendezvous
	}
	res.Faults["forced_gc"] = zzsim.GCFired
	if zzsim.StallsApplied > 0 {
		res.Faults["task_stalled_decisions"] = zzsim.StallsApplied
	}
	if zzsim.ClockJumpFaults > 0 {
		res.Faults["clock_jump"] = zzsim.ClockJumpFaults
	}
	if zzsim.TimersFired > 0 {
		res.Probes["simulated_timers_fired"] = zzsim.TimersFired
	}
	if zzsim.SleepsDone > 0 {
		res.Probes["simulated_sleeps"] = zzsim.SleepsDone
	}
	if zzsim.ClockJumps > 0 {
		res.Probes["clock_moved_to_next_event_because_nobody_could_run"] = zzsim.ClockJumps
	}
	if zzsim.LocksLeftHeld > 0 {
		res.Probes["program_exit_left_a_lock_held"] = zzsim.LocksLeftHeld
	}
	if zzsim.FinalizersRun > 0 {
		res.Faults["finalizers_run_as_simulated_task"] = zzsim.FinalizersRun
	}
	if *wantTape {
		res.Tape = append([][2]int64(nil), zzsim.TapeOut[:zzsim.NTapeOut]...)
		res.FaultTape = append([]int64(nil), zzsim.FaultOut[:zzsim.NFaultOut]...)
	}
	if *eventsPath != "" {
		f, err := os.Create(*eventsPath)
		if err == nil {
			for i := 0; i < zzsim.NEvents; i++ {
				e := zzsim.Events[i]
				fmt.Fprintf(f, "%d %d %d %d %d %d\n", e[0], e[1], e[2], e[3], e[4], e[5])
			}
			f.Close()
		}
	}
}

func main() {
	scnPath := flag.String("scn", "", "scenario file")
	outPath := flag.String("out", "", "result file")
	iso := flag.Int("iso", -1, "run only flattened pipeline k, alone (isolated reference); -2: every pipeline, one after the other, in reverse order")
	flag.Parse()
	procs := 1
	if v := os.Getenv("ZZSIM_PROCS"); v != "" {
		procs, _ = strconv.Atoi(v)
	}
	runtime.GOMAXPROCS(procs)
	if usesFinalizers {
		// objects are found dead where the fault schedule puts a collection, not
		// where the pacer happens to: automatic collections are off, with a
		// ceiling on the heap as the only exception (very large runs)
		debug.SetGCPercent(-1)
		debug.SetMemoryLimit(640 << 20)
	}

	raw, err := os.ReadFile(*scnPath)
	if err != nil {
		fmt.Fprintln(os.Stderr, "simnode:", err)
		os.Exit(3)
	}
	var s scn.Scenario
	if err := json.Unmarshal(raw, &s); err != nil {
		fmt.Fprintln(os.Stderr, "simnode:", err)
		os.Exit(3)
	}
	cliFSRoot = *outPath + ".fs"
	lightEnd = s.Light
	res := &scn.Result{Prop: s.Prop, RunSeed: s.RunSeed, Faults: map[string]int64{}, Probes: map[string]int64{}, KnobState: knobState}
	switch {
	case *iso == -2:
		runRev(&s, res)
		out, _ := json.Marshal(res)
		os.WriteFile(*outPath, out, 0644)
		return
	case *iso >= 0:
		if s.Prop == "C13" {
			runIsoC13(&s, *iso, res)
		} else if s.Kind == "C" {
			runIsoCLI(&s, *iso, res)
		} else {
			runIso(&s, *iso, res)
		}
		out, _ := json.Marshal(res)
		os.WriteFile(*outPath, out, 0644)
		return
	}
	switch s.Prop {
	case "C11":
		runC11(&s, res)
	case "C13":
		runC13(&s, res)
	case "C18":
		runC18(&s, res)
	default:
		res.Infra = "unknown property " + s.Prop
	}
	if zzsim.Unsupported != "" && res.Infra == "" {
		res.Infra = "unsupported construct: " + zzsim.Unsupported
	}
	if zzsim.TaskPanics > 0 && res.Infra == "" {
		res.Infra = "a panic escaped a task body (harness bug)"
	}
	for i, name := range probeNames {
		if zzsim.Probe[i] != 0 {
			res.Probes[name] += zzsim.Probe[i]
		}
	}
	res.Tasks = len(s.Tasks) + len(s.PoolTasks)
	out, _ := json.Marshal(res)
	if err := os.WriteFile(*outPath, out, 0644); err != nil {
		fmt.Fprintln(os.Stderr, "simnode:", err)
		os.Exit(3)
	}
	if res.Infra != "" {
		os.Exit(3)
	}
}
