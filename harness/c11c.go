//go:build zzcli

package main

import (
	"os"
	"path/filepath"
	"sort"
	"strconv"
	"strings"
	"sync"

	"verif/scn"

	cli "github.com/z7zmey/php-parser/cmd/php-parser"
	"github.com/z7zmey/php-parser/pkg/zzsim"
	"github.com/z7zmey/php-parser/pkg/zzsimflag"
	"github.com/z7zmey/php-parser/pkg/zzsimos"
)

const cliAvailable = true

// Scenario C: the real cmd/php-parser program (its main function, worker
// goroutines, channels, WaitGroup, flag handling) runs under the simulator on
// real files in a per-run scratch directory; stdout/stderr/exit are captured.

type cliObs struct {
	stdout   string
	stderr   []string // normalised lines
	files    map[string]string
	exited   bool
	code     int
	crash    string
	deadlock bool
	budget   bool
	stuck    bool
}

func (o *cliObs) normalEnd() bool {
	return !o.deadlock && !o.budget && o.crash == "" && (!o.exited || o.code == 0)
}

func (o *cliObs) endText() string {
	switch {
	case o.budget:
		return "step budget exhausted"
	case o.deadlock:
		return "deadlock"
	case o.crash != "":
		return "crash: " + short(o.crash, 120)
	case o.exited:
		return "exit " + strconv.Itoa(o.code)
	}
	return "normal end"
}

var cliFSRoot string // set by main from the -out path

func cliLimit(s *scn.Scenario) int64 {
	var l int64
	for i := range s.Inputs {
		l += budgetFor(len(s.Inputs[i].Src))
	}
	return l * 6
}

func writeTree(root string, s *scn.Scenario, only int) error {
	for i := range s.Inputs {
		if only >= 0 && i != only {
			continue
		}
		p := filepath.Join(root, s.Inputs[i].Path)
		if err := os.MkdirAll(filepath.Dir(p), 0755); err != nil {
			return err
		}
		if err := os.WriteFile(p, s.Inputs[i].Src, 0644); err != nil {
			return err
		}
	}
	return nil
}

// normLine makes a stderr line comparable between runs: the scratch root is
// removed, and on a line that names a file the digits outside the file's path
// become '#' (the CLI numbers files in completion order, which is
// legitimately schedule-dependent).
func normLine(l, root string, paths []string) string {
	l = strings.ReplaceAll(l, root+string(filepath.Separator), "")
	l = strings.ReplaceAll(l, root, ".")
	for _, p := range paths {
		if k := strings.Index(l, p); k >= 0 {
			return hashDigits(l[:k]) + p + hashDigits(l[k+len(p):])
		}
	}
	return l
}

func hashDigits(s string) string {
	var b []byte
	for i := 0; i < len(s); i++ {
		if s[i] >= '0' && s[i] <= '9' {
			if n := len(b); n == 0 || b[n-1] != '#' {
				b = append(b, '#')
			}
			continue
		}
		b = append(b, s[i])
	}
	return string(b)
}

// sortedPaths: the scenario's paths, longest first (computed once per scenario)
var sortedPathsOf *scn.Scenario
var sortedPaths []string

func pathsOf(s *scn.Scenario) []string {
	if sortedPathsOf != s {
		var paths []string
		for i := range s.Inputs {
			paths = append(paths, s.Inputs[i].Path)
		}
		sort.Slice(paths, func(i, j int) bool { return len(paths[i]) > len(paths[j]) })
		sortedPathsOf, sortedPaths = s, paths
	}
	return sortedPaths
}

// only >= 0: the tree holds just input `only` (a solo run): no other file is
// looked for afterwards.
func runCLIOnce(cfg zzsim.Config, s *scn.Scenario, root string, args []string, workers int, fsf []scn.FSFault, only int) (o cliObs) {
	var mu sync.Mutex
	var ff []zzsimos.FSFault
	for _, f := range fsf {
		ff = append(ff, zzsimos.FSFault{Suffix: string(filepath.Separator) + filepath.FromSlash(f.Path), Kind: f.Kind})
	}
	zzsimos.SetFSFaults(ff)
	cfg.DefaultOpLimit = cliLimit(s)
	zzsim.Init(cfg)
	applyKnob(s.Knob)
	zzsimos.Reset(args, workers)
	zzsimflag.Reset(args, zzsimos.Stderr)
	zzsimflag.ParseFailed = func(error) { zzsimos.Exit(2) }
	zzsimos.ResetProgram() // the program's package-level variables as a fresh process has them
	zzsim.PanicHandler = func(task int, r interface{}) {
		mu.Lock()
		if o.crash == "" {
			o.crash = panicText(r)
		}
		mu.Unlock()
		zzsim.Halt() // an uncaught panic ends the whole program
	}
	aborts0 := zzsim.BudgetAborts
	zzsim.Deadlock = false
	zzsim.Spawn(func() {
		cli.ZZMain()
		zzsim.Halt() // main returned: the process exits, whatever else still runs
	})
	zzsim.Run()
	zzsim.PanicHandler = nil
	o.stuck = zzsim.StuckOutside
	o.deadlock = zzsim.Deadlock
	zzsim.Deadlock = false
	o.budget = zzsim.BudgetAborts > aborts0
	o.exited, o.code = zzsimos.Exited()
	paths := pathsOf(s)
	o.stdout = strings.ReplaceAll(string(zzsimos.Stdout.Bytes()), root+string(filepath.Separator), "")
	for _, l := range strings.Split(string(zzsimos.Stderr.Bytes()), "\n") {
		if l != "" {
			o.stderr = append(o.stderr, normLine(l, root, paths))
		}
	}
	o.files = map[string]string{}
	look := paths
	if only >= 0 {
		look = []string{s.Inputs[only].Path}
	}
	for _, p := range look {
		if b, err := os.ReadFile(filepath.Join(root, p)); err == nil {
			o.files[p] = string(b)
		}
	}
	return
}

func cliArgs(s *scn.Scenario, root string, paths []string) []string {
	args := append([]string(nil), s.CLIFlags...)
	for _, p := range paths {
		args = append(args, filepath.Join(root, p))
	}
	return args
}

func (o *cliObs) hash() string {
	lines := append([]string(nil), o.stderr...)
	sort.Strings(lines)
	var keys []string
	for k := range o.files {
		keys = append(keys, k)
	}
	sort.Strings(keys)
	h := strHash(o.stdout) ^ strHash(strings.Join(lines, "\n"))*31 ^ strHash(o.endText())*131
	for _, k := range keys {
		h = (h ^ strHash(k+"\x00"+o.files[k])) * 0x100000001b3
	}
	return strconv.FormatUint(h, 16)
}

func runC11CLI(s *scn.Scenario, res *scn.Result) {
	add := func(oracle, sig, detail string) {
		res.Violations = append(res.Violations, scn.Violation{Oracle: oracle, Sig: sig, Detail: detail})
	}
	base := cliFSRoot
	os.RemoveAll(base)
	defer os.RemoveAll(base)
	root := filepath.Join(base, "tree")
	if err := writeTree(root, s, -1); err != nil {
		res.Infra = "cannot create the scratch file tree: " + err.Error()
		return
	}
	paths := s.CLIPaths
	if len(paths) == 0 {
		paths = []string{"."}
	}

	// ---- phase 1: the whole program under the seeded scheduler
	markSites(s.Sched.SiteClass)
	got := runCLIOnce(simConfig(s), s, root, cliArgs(s, root, paths), s.Workers, s.FSFaults, -1)
	fsFired := zzsimos.FSFired()
	faulted := false
	for k, n := range fsFired {
		res.Faults["fs_"+k] += n
		faulted = faulted || n > 0
	}
	if got.stuck {
		res.Infra = "a task blocked outside the simulator (no step for " + zzsim.StuckAfter.String() + ")"
		return
	}
	snapshotPhase1(res)

	// ---- phase 2: the same program on every file alone (one worker, no
	// preemption), afterwards and in the same process
	solo := make([]cliObs, len(s.Inputs))
	for i := range s.Inputs {
		r := filepath.Join(base, "solo"+strconv.Itoa(i))
		if err := writeTree(r, s, i); err != nil {
			res.Infra = "cannot create the scratch file tree: " + err.Error()
			return
		}
		solo[i] = runCLIOnce(refConfig(s), s, r, cliArgs(s, r, []string{"."}), 1, nil, i)
		if solo[i].stuck {
			res.Infra = "a task blocked outside the simulator in a solo run"
			return
		}
	}
	res.RefSteps = zzsim.Steps - res.Steps
	res.Ops = len(s.Inputs)
	res.NonTrivial = len(s.Inputs) >= 2 && res.Preemptions >= 1
	res.OutcomeHash = got.hash()
	for i := range solo {
		res.PipeHashes = append(res.PipeHashes, solo[i].hash())
	}

	// ---- oracles
	anyBudget, allNormal := got.budget, true
	abnormal := ""
	for i := range solo {
		anyBudget = anyBudget || solo[i].budget
		if !solo[i].normalEnd() {
			allNormal = false
			abnormal = s.Inputs[i].Path + " alone: " + solo[i].endText()
		}
	}
	if anyBudget {
		res.Probes["cli_budget_abort"]++
		res.PipeHashes = nil
		return // an endless loop in the code under test (a C01 matter): no comparison possible
	}
	if !allNormal || !got.normalEnd() {
		// after an abnormal end the program's package-level state (its
		// WaitGroup) is not what a fresh process starts with: the in-process
		// solo runs that followed are not comparable with fresh-process ones
		res.PipeHashes = nil
	}
	if !allNormal {
		res.Probes["cli_abnormal_end_alone"]++
		res.Trace = append(res.Trace, "not judged further: "+abnormal+"; the whole tree: "+got.endText())
		if got.normalEnd() {
			add("O1-equals-alone", "cli-end", "the program ends normally on the whole tree although "+abnormal)
		}
		return
	}
	if faulted {
		// An I/O error struck the program (the reference runs met none). Narrow
		// relaxation: the program may stop early and any file may be left as it
		// was, but it may not crash or hang, no file may hold anything other
		// than its original or its alone-result (the struck file of a torn
		// write: a prefix of that), and what reached standard output must still
		// be whole per-file outputs, the last one possibly cut short by the exit.
		res.PipeHashes = nil
		res.Probes["cli_run_with_io_fault"]++
		if got.deadlock || got.crash != "" {
			add("O4-progress", "cli-end-after-io-fault", "php-parser "+strings.Join(s.CLIFlags, " ")+" over "+strconv.Itoa(len(s.Inputs))+" files: after an I/O error on one file the program ends with ["+got.endText()+"]")
			return
		}
		struck := map[string]string{}
		for _, f := range s.FSFaults {
			struck[f.Path] += "," + f.Kind // (two faults may name the same file)
		}
		for i := range s.Inputs {
			p := s.Inputs[i].Path
			c, orig, ref := got.files[p], string(s.Inputs[i].Src), solo[i].files[p]
			ok := c == orig || c == ref
			if !ok && strings.Contains(struck[p], "write-torn") && strings.HasPrefix(ref, c) {
				ok = true
			}
			if !ok {
				add("O1-equals-alone", "cli-file-content-after-io-fault", "file "+p+" ("+s.Inputs[i].Name+") after php-parser "+strings.Join(s.CLIFlags, " ")+" with an I/O error on "+faultList(s)+" holds neither its original content nor what processing it alone gives: "+firstDiff(c, ref))
				break
			}
		}
		rest := got.stdout
		used := make([]bool, len(solo))
		for rest != "" {
			best := -1
			for i := range solo {
				if !used[i] && solo[i].stdout != "" && strings.HasPrefix(rest, solo[i].stdout) && (best < 0 || len(solo[i].stdout) > len(solo[best].stdout)) {
					best = i
				}
			}
			if best < 0 {
				cut := false
				for i := range solo {
					if !used[i] && strings.HasPrefix(solo[i].stdout, rest) {
						cut = true
					}
				}
				if !cut {
					add("O1-equals-alone", "cli-stdout-after-io-fault", "standard output of php-parser "+strings.Join(s.CLIFlags, " ")+" with an I/O error on "+faultList(s)+" is not made of outputs produced for single files alone; unmatched part starts "+strconv.Quote(short(rest, 160)))
				}
				break
			}
			used[best] = true
			rest = rest[len(solo[best].stdout):]
		}
		return
	}
	if !got.normalEnd() {
		sig := "cli-end"
		if got.deadlock {
			sig = "cli-deadlock"
		}
		add("O4-progress", sig, "php-parser "+strings.Join(s.CLIFlags, " ")+" over "+strconv.Itoa(len(s.Inputs))+" files with "+strconv.Itoa(s.Workers)+" workers ends with ["+got.endText()+"], although it ends normally on each file alone")
		return
	}
	// files
	for i := range s.Inputs {
		p := s.Inputs[i].Path
		if got.files[p] != solo[i].files[p] {
			add("O1-equals-alone", "cli-file-content", "file "+p+" ("+s.Inputs[i].Name+") after php-parser "+strings.Join(s.CLIFlags, " ")+" differs from the same file processed alone: "+firstDiff(got.files[p], solo[i].files[p]))
			break
		}
	}
	// stdout: a concatenation of the per-file outputs in some order
	rest := got.stdout
	used := make([]bool, len(solo))
	for n := 0; n < len(solo); n++ {
		best := -1
		for i := range solo {
			if !used[i] && strings.HasPrefix(rest, solo[i].stdout) && (best < 0 || len(solo[i].stdout) > len(solo[best].stdout)) {
				best = i
			}
		}
		if best < 0 {
			add("O1-equals-alone", "cli-stdout", "standard output of php-parser "+strings.Join(s.CLIFlags, " ")+" is not a concatenation of the outputs produced for each file alone; unmatched part starts "+strconv.Quote(short(rest, 160))+" after "+strconv.Itoa(n)+" matched files")
			break
		}
		used[best] = true
		rest = rest[len(solo[best].stdout):]
		if n == len(solo)-1 && rest != "" {
			add("O1-equals-alone", "cli-stdout", "standard output has extra content after every file's output was matched: "+strconv.Quote(short(rest, 160)))
		}
	}
	// stderr: the same lines, as a multiset
	want := map[string]int{}
	for i := range solo {
		for _, l := range solo[i].stderr {
			want[l]++
		}
	}
	for _, l := range got.stderr {
		want[l]--
	}
	var keys []string
	for l, n := range want {
		if n != 0 {
			keys = append(keys, l)
		}
	}
	sort.Strings(keys)
	if len(keys) > 0 {
		l := keys[0]
		what := "is missing"
		if want[l] < 0 {
			what = "appears although no file alone produces it (or more often)"
		}
		add("O1-equals-alone", "cli-stderr", "standard error of php-parser "+strings.Join(s.CLIFlags, " ")+": line "+strconv.Quote(short(l, 200))+" "+what+" ("+strconv.Itoa(len(keys))+" differing lines)")
	}
}

func faultList(s *scn.Scenario) string {
	var l []string
	for _, f := range s.FSFaults {
		l = append(l, f.Path+" ("+f.Kind+")")
	}
	return strings.Join(l, ", ")
}

// runIsoCLI: file k alone in this fresh process.
func runIsoCLI(s *scn.Scenario, k int, res *scn.Result) {
	if k < 0 || k >= len(s.Inputs) {
		res.Infra = "iso: no such file"
		return
	}
	base := cliFSRoot
	os.RemoveAll(base)
	defer os.RemoveAll(base)
	r := filepath.Join(base, "solo"+strconv.Itoa(k))
	if err := writeTree(r, s, k); err != nil {
		res.Infra = err.Error()
		return
	}
	o := runCLIOnce(refConfig(s), s, r, cliArgs(s, r, []string{"."}), 1, nil, k)
	res.Steps = zzsim.Steps
	res.PipeHashes = []string{o.hash()}
	res.Trace = []string{o.endText(), "stdout: " + short(o.stdout, 300), "stderr: " + short(strings.Join(o.stderr, " | "), 300), "file: " + short(o.files[s.Inputs[k].Path], 300)}
}
