//go:build !zzcli

package main

import "verif/scn"

const cliAvailable = false

var cliFSRoot string

func runC11CLI(s *scn.Scenario, res *scn.Result) {
	res.Infra = "scenario C requested but the instrumented cmd/php-parser did not build"
}

func runIsoCLI(s *scn.Scenario, k int, res *scn.Result) { res.Infra = "scenario C unavailable" }
