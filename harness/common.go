package main

import (
	"bytes"
	"errors"
	"io"
	"reflect"
	"sort"
	"strconv"
	"strings"

	"verif/scn"

	"github.com/z7zmey/php-parser/pkg/ast"
	"github.com/z7zmey/php-parser/pkg/conf"
	perrors "github.com/z7zmey/php-parser/pkg/errors"
	"github.com/z7zmey/php-parser/pkg/parser"
	"github.com/z7zmey/php-parser/pkg/token"
	"github.com/z7zmey/php-parser/pkg/version"
	"github.com/z7zmey/php-parser/pkg/visitor"
	"github.com/z7zmey/php-parser/pkg/visitor/dumper"
	"github.com/z7zmey/php-parser/pkg/visitor/nsresolver"
	"github.com/z7zmey/php-parser/pkg/visitor/printer"
	"github.com/z7zmey/php-parser/pkg/visitor/traverser"
	"github.com/z7zmey/php-parser/pkg/zzsim"
)

// ---------------------------------------------------------------- outcomes

const (
	outBudget   = "\x00BUDGET"
	outDeadlock = "\x00DEADLOCK"
)

// panicText turns a recovered value into a comparable string without fmt.
func panicText(r interface{}) string {
	switch x := r.(type) {
	case zzsim.BudgetExceeded:
		return outBudget
	case zzsim.DeadlockAbort:
		return outDeadlock
	case injectedPanic:
		return "\x00INJECTED-ABORT"
	case string:
		return "\x00PANIC " + x
	case error:
		return "\x00PANIC " + x.Error()
	}
	return "\x00PANIC (value of another type)"
}

func budgetFor(n int) int64 { return int64(50000 + 3000*n) }

// ---------------------------------------------------------------- writer

type injectedPanic struct{}

var errInjected = errors.New("injected write error")

// simWriter is the io.Writer seam: it accepts bytes into a private buffer and
// fails the fault.At-th Write call in the requested way.
type simWriter struct {
	buf      []byte
	calls    int
	fault    *scn.WFault
	fired    bool
	accepted int // bytes accepted before the fault fired
	sticky   bool
	digest   bool // the output exceeded writerKeep: only n and h are kept
	n        int
	h        uint64
}

func (w *simWriter) Write(p []byte) (int, error) {
	if w.sticky {
		return 0, errInjected
	}
	if w.fault != nil && !w.fired && w.calls == w.fault.At {
		w.fired = true
		w.accepted = len(w.buf)
		w.calls++
		switch w.fault.Kind {
		case "err":
			return 0, errInjected
		case "errsticky":
			w.sticky = true
			return 0, errInjected
		case "short":
			n := len(p) / 2
			w.buf = append(w.buf, p[:n]...)
			w.accepted = len(w.buf)
			return n, io.ErrShortWrite
		case "panic":
			panic(injectedPanic{})
		}
	}
	w.calls++
	if w.digest || len(w.buf)+len(p) > writerKeep {
		// very large outputs (the dump of a deeply nested tree grows with the
		// square of the depth) are kept as length + hash only
		if !w.digest {
			w.digest, w.h = true, 0xcbf29ce484222325
			w.hash(w.buf)
			w.n = len(w.buf)
			w.buf = nil
		}
		w.hash(p)
		w.n += len(p)
		return len(p), nil
	}
	w.buf = append(w.buf, p...)
	return len(p), nil
}

const writerKeep = 6 << 20

func (w *simWriter) hash(p []byte) {
	h := w.h
	for _, c := range p {
		h = (h ^ uint64(c)) * 0x100000001b3
	}
	w.h = h
}

// text is what the operation wrote, or a digest of it when it was very large.
func (w *simWriter) text() string {
	if w.digest {
		return "<" + strconv.Itoa(w.n) + " bytes written, fnv64 " + strconv.FormatUint(w.h, 16) + ">"
	}
	return string(w.buf)
}

// ---------------------------------------------------------------- parse

type parsed struct {
	out     string // error / panic text, "" if Parse returned
	errs    string // reported errors, one per line, rendered right after Parse
	errList []*perrors.Error
	root    ast.Vertex
	src     []byte // the private buffer every token aliases
}

// renderErrs renders the retained error objects again (they must stay valid).
func renderErrs(list []*perrors.Error) string {
	var b []byte
	for _, e := range list {
		b = appendErr(b, e)
	}
	return string(b)
}

var sharedVersions = map[string]*version.Version{}

func versionFor(in *scn.Input, share bool) *version.Version {
	if in.Version == "" {
		return nil
	}
	if share {
		return sharedVersions[in.Version]
	}
	v, err := version.New(in.Version)
	if err != nil {
		panic(err)
	}
	return v
}

func appendErr(b []byte, e *perrors.Error) []byte {
	if e == nil {
		return append(b, "<nil error>\n"...)
	}
	b = append(b, e.Msg...)
	if e.Pos == nil {
		b = append(b, " @nil"...)
	} else {
		b = append(b, " @"...)
		b = strconv.AppendInt(b, int64(e.Pos.StartLine), 10)
		b = append(b, ',')
		b = strconv.AppendInt(b, int64(e.Pos.EndLine), 10)
		b = append(b, ',')
		b = strconv.AppendInt(b, int64(e.Pos.StartPos), 10)
		b = append(b, ',')
		b = strconv.AppendInt(b, int64(e.Pos.EndPos), 10)
	}
	return append(b, '\n')
}

// doParse parses a private copy of the input as one budgeted operation.
func doParse(in *scn.Input, share bool) (p parsed) {
	p.src = append([]byte(nil), in.Src...)
	var errs []*perrors.Error
	defer func() {
		if r := recover(); r != nil {
			zzsim.BeginOp(zzsim.Inf)
			p.out = panicText(r)
			p.root = nil
			if _, injected := r.(injectedPanic); injected {
				zzsim.AddProbe(probeCallbackAbort, 1)
				p.errList = errs
				p.errs = renderErrs(errs)
			}
		}
	}()
	zzsim.BeginOp(budgetFor(len(in.Src)))
	cfg := conf.Config{Version: versionFor(in, share)}
	if in.Callback {
		cfg.ErrorHandlerFunc = func(e *perrors.Error) {
			if in.AbortAt > 0 && len(errs)+1 == in.AbortAt {
				panic(injectedPanic{}) // the caller aborts the parse from inside its callback
			}
			errs = append(errs, e)
		}
	}
	root, err := parser.Parse(p.src, cfg)
	zzsim.BeginOp(zzsim.Inf)
	if err != nil {
		p.out = "ERR " + err.Error()
		return
	}
	p.errList = errs
	p.errs = renderErrs(errs)
	p.root = root
	if root != nil && reflect.ValueOf(root).IsNil() {
		p.root = nil
	}
	return
}

// ---------------------------------------------------------------- operations

var opKinds = []string{"print", "dump", "dumpT", "dumpP", "dumpTP", "traverse", "resolve", "printP", "null"}

type opResult struct {
	out      string // full output, or panic text
	prefix   int    // for a faulted operation: bytes accepted before the fault
	faulted  bool
	panicked bool
	calls    int  // Write calls made
	digest   bool // out is a length + hash digest of a very large output, not the bytes
}

// doOp applies one read-only operation with a fresh visitor and a private
// writer. srcLen sizes the step budget.
func doOp(kind string, root ast.Vertex, srcLen int, fault *scn.WFault) (res opResult) {
	w := &simWriter{fault: fault}
	rec := &recorder{abortAt: -1}
	if kind == "traverse" && fault != nil {
		rec.abortAt, w.fault = fault.At, nil
	}
	defer func() {
		zzsim.BeginOp(zzsim.Inf)
		res.calls = w.calls
		if kind == "traverse" {
			res.calls = rec.n
		}
		if r := recover(); r != nil {
			res.panicked = true
			if rec.aborted {
				res.faulted = true
				res.prefix = rec.acc
				res.out = string(rec.buf)
				return
			}
			if w.fired {
				// the fault made the operation abort: only the prefix counts
				res.faulted = true
				res.prefix = w.accepted
				res.out = w.text()
				res.digest = w.digest
				res.digest = w.digest
				if w.digest {
					res.prefix = 0
				}
				return
			}
			res.out = panicText(r)
		}
	}()
	zzsim.BeginOp(budgetFor(srcLen))
	switch kind {
	case "print":
		root.Accept(printer.NewPrinter(w))
	case "printP": // the printer told it is already inside PHP code
		root.Accept(printer.NewPrinter(w).WithState(printer.PrinterStatePHP))
	case "null": // traversal with the library's own do-nothing visitor
		traverser.NewTraverser(&visitor.Null{}).Traverse(root)
	case "dump":
		dumper.NewDumper(w).Dump(root)
	case "dumpT":
		dumper.NewDumper(w).WithTokens().Dump(root)
	case "dumpP":
		dumper.NewDumper(w).WithPositions().Dump(root)
	case "dumpTP":
		dumper.NewDumper(w).WithTokens().WithPositions().Dump(root)
	case "traverse":
		traverser.NewTraverser(rec).Traverse(root)
		w.buf = rec.buf
	case "resolve":
		r := nsresolver.NewNamespaceResolver()
		traverser.NewTraverser(r).Traverse(root)
		zzsim.BeginOp(zzsim.Inf)
		w.buf = resolvedText(root, r.ResolvedNames)
	default:
		panic("harness: unknown op " + kind)
	}
	res.out = w.text()
	res.digest = w.digest
	if w.fired {
		res.faulted = true
		res.prefix = w.accepted
	}
	return
}

// recorder is the passive visitor; its per-node methods are generated from the
// working tree's ast.Visitor interface (recorder_gen.go).
type recorder struct {
	buf     []byte
	n       int
	abortAt int // -1: never; otherwise panic when visiting node number abortAt
	aborted bool
	acc     int
}

func (r *recorder) visit(kind string, n ast.Vertex) {
	if r.n == r.abortAt && !r.aborted {
		r.aborted = true
		r.acc = len(r.buf)
		panic(injectedPanic{})
	}
	r.n++
	r.buf = append(r.buf, kind...)
	if n == nil || reflect.ValueOf(n).IsNil() {
		r.buf = append(r.buf, " <nil>\n"...)
		return
	}
	p := n.GetPosition()
	if p == nil {
		r.buf = append(r.buf, " -\n"...)
		return
	}
	r.buf = append(r.buf, ' ')
	r.buf = strconv.AppendInt(r.buf, int64(p.StartLine), 10)
	r.buf = append(r.buf, ',')
	r.buf = strconv.AppendInt(r.buf, int64(p.EndLine), 10)
	r.buf = append(r.buf, ',')
	r.buf = strconv.AppendInt(r.buf, int64(p.StartPos), 10)
	r.buf = append(r.buf, ',')
	r.buf = strconv.AppendInt(r.buf, int64(p.EndPos), 10)
	r.buf = append(r.buf, '\n')
}

// ---------------------------------------------------------------- tree walking

var vertexType = reflect.TypeOf((*ast.Vertex)(nil)).Elem()
var tokenPtrType = reflect.TypeOf((*token.Token)(nil))

// walker computes a fingerprint of everything reachable from a tree through
// EXPORTED fields, and numbers the vertices in pre-order (field order).
type walker struct {
	h     uint64
	nodes int
	toks  int
	index map[ast.Vertex]int
	list  []ast.Vertex // with index: the vertices in pre-order
	depth int
}

func (w *walker) u64(x uint64) {
	for i := 0; i < 8; i++ {
		w.h = (w.h ^ (x & 0xff)) * 0x100000001b3
		x >>= 8
	}
}

func (w *walker) str(s string) {
	w.u64(uint64(len(s)))
	for i := 0; i < len(s); i++ {
		w.h = (w.h ^ uint64(s[i])) * 0x100000001b3
	}
}

func (w *walker) walk(v reflect.Value) {
	w.depth++
	defer func() { w.depth-- }()
	if w.depth > 20000 {
		w.str("<too deep>")
		return
	}
	switch v.Kind() {
	case reflect.Ptr:
		if v.IsNil() {
			w.u64(0)
			return
		}
		w.u64(1)
		if v.Type() == tokenPtrType {
			w.toks++
		}
		if v.Type().Implements(vertexType) {
			w.nodes++
			if w.index != nil && v.CanInterface() {
				if vx, ok := v.Interface().(ast.Vertex); ok {
					if _, seen := w.index[vx]; !seen {
						w.index[vx] = len(w.index)
						w.list = append(w.list, vx)
					}
				}
			}
		}
		w.walk(v.Elem())
	case reflect.Interface:
		if v.IsNil() {
			w.u64(2)
			return
		}
		w.str(v.Elem().Type().String())
		w.walk(v.Elem())
	case reflect.Struct:
		t := v.Type()
		for i := 0; i < v.NumField(); i++ {
			if t.Field(i).PkgPath != "" {
				continue // unexported: not observable by callers
			}
			w.walk(v.Field(i))
		}
	case reflect.Slice:
		if v.IsNil() {
			w.u64(3)
			return
		}
		w.u64(4)
		w.u64(uint64(v.Len()))
		if v.Type().Elem().Kind() == reflect.Uint8 {
			w.str(string(v.Bytes()))
			return
		}
		for i := 0; i < v.Len(); i++ {
			w.walk(v.Index(i))
		}
	case reflect.Array:
		for i := 0; i < v.Len(); i++ {
			w.walk(v.Index(i))
		}
	case reflect.String:
		w.str(v.String())
	case reflect.Bool:
		if v.Bool() {
			w.u64(6)
		} else {
			w.u64(5)
		}
	case reflect.Int, reflect.Int8, reflect.Int16, reflect.Int32, reflect.Int64:
		w.u64(uint64(v.Int()))
	case reflect.Uint, reflect.Uint8, reflect.Uint16, reflect.Uint32, reflect.Uint64, reflect.Uintptr:
		w.u64(v.Uint())
	case reflect.Float32, reflect.Float64:
		w.str(strconv.FormatFloat(v.Float(), 'g', -1, 64))
	case reflect.Map:
		if v.IsNil() {
			w.u64(7)
		} else {
			w.u64(8)
			w.u64(uint64(v.Len()))
		}
	case reflect.Func, reflect.Chan, reflect.UnsafePointer:
		if v.IsNil() {
			w.u64(9)
		} else {
			w.u64(10)
		}
	}
}

// fingerprint of a tree (and of the source buffer its tokens alias).
func fingerprint(root ast.Vertex, src []byte) string {
	w := &walker{h: 0xcbf29ce484222325}
	if root != nil {
		w.walk(reflect.ValueOf(root))
	}
	w.str(string(src))
	return strconv.FormatUint(w.h, 16) + "/" + strconv.Itoa(w.nodes)
}

// vertices lists the vertices reachable from root (root first) in pre-order.
func vertices(root ast.Vertex) []ast.Vertex {
	if root == nil {
		return nil
	}
	w := &walker{h: 0xcbf29ce484222325, index: map[ast.Vertex]int{}}
	w.walk(reflect.ValueOf(root))
	return w.list
}

// countTokens counts the token objects reachable from a tree.
func countTokens(root ast.Vertex) int {
	if root == nil {
		return 0
	}
	w := &walker{h: 0xcbf29ce484222325}
	w.walk(reflect.ValueOf(root))
	return w.toks
}

// resolvedText renders a resolver's map as (pre-order index, type, name) lines
// so that it can be compared between two trees of the same source.
func resolvedText(root ast.Vertex, names map[ast.Vertex]string) []byte {
	w := &walker{h: 0xcbf29ce484222325, index: map[ast.Vertex]int{}}
	w.walk(reflect.ValueOf(root))
	type ent struct {
		idx  int
		line string
	}
	var ents []ent
	for vx, name := range names {
		idx, ok := w.index[vx]
		if !ok {
			idx = -1
		}
		tn := "<nil>"
		if vx != nil {
			tn = reflect.TypeOf(vx).String()
		}
		ents = append(ents, ent{idx, strconv.Itoa(idx) + " " + tn + " " + name + "\n"})
	}
	sort.Slice(ents, func(i, j int) bool {
		if ents[i].idx != ents[j].idx {
			return ents[i].idx < ents[j].idx
		}
		return ents[i].line < ents[j].line
	})
	var b bytes.Buffer
	for _, e := range ents {
		b.WriteString(e.line)
	}
	return b.Bytes()
}

// ---------------------------------------------------------------- misc

func short(s string, n int) string {
	s = strings.ReplaceAll(s, "\x00", "!")
	if len(s) > n {
		return s[:n] + "…(" + strconv.Itoa(len(s)) + " bytes)"
	}
	return s
}

// firstDiff describes where two outputs start to differ.
func firstDiff(a, b string) string {
	n := len(a)
	if len(b) < n {
		n = len(b)
	}
	i := 0
	for i < n && a[i] == b[i] {
		i++
	}
	lo := i - 30
	if lo < 0 {
		lo = 0
	}
	return "at byte " + strconv.Itoa(i) + " (len " + strconv.Itoa(len(a)) + " vs " + strconv.Itoa(len(b)) + "): got " +
		strconv.Quote(short(a[lo:], 80)) + " want " + strconv.Quote(short(b[lo:], 80))
}

func strHash(s string) uint64 {
	h := uint64(0xcbf29ce484222325)
	for i := 0; i < len(s); i++ {
		h = (h ^ uint64(s[i])) * 0x100000001b3
	}
	return h
}
