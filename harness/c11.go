package main

import (
	"strconv"
	"sync"

	"verif/scn"

	"github.com/z7zmey/php-parser/pkg/ast"
	"github.com/z7zmey/php-parser/pkg/version"
	"github.com/z7zmey/php-parser/pkg/zzsim"
	zsync "github.com/z7zmey/php-parser/pkg/zzsimsync"
)

// pipeRec is everything observable about one pipeline.
type pipeRec struct {
	parse   parsed
	fp      string     // fingerprint of the tree right after parsing
	ops     []opResult // one per scn.Op
	dump    string     // full dump (tokens+positions) taken when the pipeline ended
	fpEnd   string
	errsEnd string // the retained error objects rendered again at pipeline end
	redump  string // phase 3: full dump taken after every other task finished
	fp3     string
	errs3   string
	done    bool
}

// hash of everything a pipeline observed, for comparison with an isolated
// (fresh process) execution of the same pipeline
func (r *pipeRec) hash() string {
	parts := []string{r.parse.out, r.parse.errs, r.fp}
	for i := range r.ops {
		parts = append(parts, r.ops[i].out)
	}
	parts = append(parts, r.dump, r.fpEnd, r.errsEnd)
	out := ""
	for i, p := range parts {
		if i > 0 {
			out += ","
		}
		out += strconv.FormatUint(strHash(p)^uint64(len(p)), 16)
	}
	return out
}

// lightEnd: the scenario asks for no full dump at the end of each pipeline
var lightEnd bool

func fullDump(root ast.Vertex, srcLen int) string {
	if root == nil {
		return "<nil root>"
	}
	if lightEnd {
		return "<not dumped>"
	}
	return doOp("dumpTP", root, srcLen, nil).out
}

func runParse(s *scn.Scenario, pl *scn.Pipeline, rec *pipeRec) {
	in := &s.Inputs[pl.Input]
	rec.parse = doParse(in, pl.ShareVersion)
	rec.fp = fingerprint(rec.parse.root, rec.parse.src)
}

func runOps(s *scn.Scenario, pl *scn.Pipeline, rec *pipeRec) {
	in := &s.Inputs[pl.Input]
	rec.ops = make([]opResult, len(pl.Ops))
	if rec.parse.root != nil {
		for i := range pl.Ops {
			rec.ops[i] = doOp(pl.Ops[i].Kind, target(rec.parse.root, pl.Ops[i].Sub), len(in.Src), pl.Ops[i].Fault)
			if pl.Ops[i].Sub != 0 {
				zzsim.AddProbe(probeC11OpOnPart, 1)
			}
			if rec.ops[i].faulted {
				zzsim.AddProbe(probeC11OpFault, 1)
			}
		}
	}
	if pl.Keep != "" {
		// the caller keeps one statement and lets go of the root: whatever the
		// library ties to the lifetime of the root (finalizers, recycled
		// blocks) must not take the kept part with it
		if r, ok := rec.parse.root.(*ast.Root); ok && len(r.Stmts) > 0 && r.Stmts[len(r.Stmts)/2] != nil {
			rec.parse.root = r.Stmts[len(r.Stmts)/2]
			zzsim.AddProbe(probeSubtreeKept, 1)
			if pl.Keep == "subgc" {
				zzsim.ForceGC()
			}
		}
	}
	rec.dump = fullDump(rec.parse.root, len(in.Src))
	rec.fpEnd = fingerprint(rec.parse.root, rec.parse.src)
	rec.errsEnd = renderErrs(rec.parse.errList)
	rec.done = true
}

// queue is the bounded hand-off used by scenario B. The real mutex inside
// zzsimsync gives the hand-off the happens-before edge a channel would give.
// Its critical sections contain no yield point, so under the run-token
// scheduler the lock is never contended; Progress is signalled only when the
// queue really changes (a failed test must not look like progress).
type queue struct {
	mu     sync.Mutex
	items  []int
	cap    int
	closed bool
}

func (q *queue) put(x int) {
	for {
		q.mu.Lock()
		if len(q.items) < q.cap {
			q.items = append(q.items, x)
			q.mu.Unlock()
			zzsim.Progress()
			return
		}
		q.mu.Unlock()
		zzsim.Blocked()
	}
}

func (q *queue) get() (int, bool) {
	for {
		q.mu.Lock()
		if len(q.items) > 0 {
			x := q.items[0]
			q.items = q.items[1:]
			q.mu.Unlock()
			zzsim.Progress()
			return x, true
		}
		if q.closed {
			q.mu.Unlock()
			return 0, false
		}
		q.mu.Unlock()
		zzsim.Blocked()
	}
}

func (q *queue) close() {
	q.mu.Lock()
	q.closed = true
	q.mu.Unlock()
	zzsim.Progress()
}

type flatPipe struct {
	task int
	pl   *scn.Pipeline
}

func flatten(s *scn.Scenario) (out []flatPipe) {
	for t := range s.Tasks {
		for p := range s.Tasks[t].Pipelines {
			out = append(out, flatPipe{t, &s.Tasks[t].Pipelines[p]})
		}
	}
	return
}

func simConfig(s *scn.Scenario) zzsim.Config {
	return zzsim.Config{
		Mode: s.Sched.Mode, Seed: s.Sched.Seed, Mean: s.Sched.Mean, PCTDepth: s.Sched.Depth, Horizon: s.Sched.Horizon,
		Replay: s.Sched.Replay, Tape: s.Sched.Tape, Pipe: s.Sched.Pipe,
		FaultSeed: s.Faults.Seed, FaultReplay: s.Faults.Replay, FaultTape: s.Faults.Tape, GCSteps: s.Faults.GCSteps,
		Clock: usesClock, ClockTick: s.Sched.ClockTick, ClockJumps: s.Faults.ClockJumps, Stalls: s.Faults.Stalls,
	}
}

func refConfig(s *scn.Scenario) zzsim.Config {
	return zzsim.Config{Mode: zzsim.ModeRTC, Seed: 1, Pipe: s.Sched.Pipe, FaultSeed: 1, Clock: usesClock, ClockTick: s.Sched.ClockTick}
}

func runC11(s *scn.Scenario, res *scn.Result) {
	if s.Kind == "C" {
		runC11CLI(s, res)
		return
	}
	for i := range s.Inputs {
		if v := s.Inputs[i].Version; v != "" {
			if _, ok := sharedVersions[v]; !ok {
				nv, err := version.New(v)
				if err != nil {
					res.Infra = "bad version in scenario: " + v
					return
				}
				sharedVersions[v] = nv
			}
		}
	}
	pipes := flatten(s)
	recs := make([]*pipeRec, len(pipes))
	for i := range recs {
		recs[i] = &pipeRec{}
	}

	// ---- phase 1: concurrent, under the seeded scheduler
	zzsim.Init(simConfig(s))
	applyKnob(s.Knob)
	markSites(s.Sched.SiteClass)
	switch s.Kind {
	case "A":
		k := 0
		for t := range s.Tasks {
			lo, hi := k, k+len(s.Tasks[t].Pipelines)
			k = hi
			zzsim.Spawn(func() {
				for i := lo; i < hi; i++ {
					runParse(s, pipes[i].pl, recs[i])
					runOps(s, pipes[i].pl, recs[i])
				}
			})
		}
	case "B":
		files := &queue{cap: s.QueueCap}
		results := &queue{cap: s.QueueCap}
		var wg zsync.WaitGroup
		zzsim.Spawn(func() { // the CLI's main goroutine
			for i := range pipes {
				wg.Add(1)
				files.put(i)
			}
			wg.Wait()
			files.close()
			results.close()
		})
		for w := 0; w < s.Workers; w++ {
			zzsim.Spawn(func() { // parserWorker
				for {
					i, ok := files.get()
					if !ok {
						return
					}
					runParse(s, pipes[i].pl, recs[i])
					results.put(i)
				}
			})
		}
		zzsim.Spawn(func() { // printerWorker
			for {
				i, ok := results.get()
				if !ok {
					return
				}
				zzsim.AddProbe(probeTreeHandedOver, 1)
				runOps(s, pipes[i].pl, recs[i])
				wg.Done()
			}
		})
	default:
		res.Infra = "unknown C11 scenario kind " + s.Kind
		return
	}
	zzsim.Run()
	if zzsim.StuckOutside {
		res.Infra = "a task blocked outside the simulator (no step for " + zzsim.StuckAfter.String() + ")"
		return
	}
	snapshotPhase1(res)
	deadlocked := zzsim.Deadlock
	aborts1 := zzsim.BudgetAborts
	crash1, crashText := zzsim.CodePanics, zzsim.CodePanicText

	// ---- phase 2: the same pipelines alone, sequentially, as one task. After
	// phase 1 on purpose: lazily initialised shared state must first be met
	// concurrently (DESIGN.md §2.3(d)).
	refs := make([]*pipeRec, len(pipes))
	for i := range refs {
		refs[i] = &pipeRec{}
	}
	zzsim.Init(refConfig(s))
	applyKnob(s.Knob)
	zzsim.Spawn(func() {
		for i := range pipes {
			runParse(s, pipes[i].pl, refs[i])
			runOps(s, pipes[i].pl, refs[i])
		}
	})
	zzsim.Run()

	// ---- phase 3: trees kept from phase 1 must still dump the same
	zzsim.Init(refConfig(s))
	zzsim.Spawn(func() {
		for i := range pipes {
			if recs[i].done {
				recs[i].redump = fullDump(recs[i].parse.root, len(s.Inputs[pipes[i].pl.Input].Src))
				recs[i].fp3 = fingerprint(recs[i].parse.root, recs[i].parse.src)
				recs[i].errs3 = renderErrs(recs[i].parse.errList)
			}
		}
	})
	zzsim.Run()
	res.RefSteps = zzsim.Steps - res.Steps

	// ---- oracles
	add := func(oracle, sig, detail string) {
		res.Violations = append(res.Violations, scn.Violation{Oracle: oracle, Sig: sig, Detail: detail})
	}
	if crash1 > 0 {
		// a panic escaped a goroutine that the code under test started itself:
		// in a real process that ends the whole program, whatever the other
		// pipelines were doing - unless the same work crashes the same way alone
		if zzsim.CodePanics == crash1 {
			add("O4-progress", "goroutine-crash", strconv.FormatInt(crash1, 10)+" goroutine(s) started by the library panicked during the concurrent run ("+short(crashText, 200)+"); none does when the same pipelines run alone")
		} else {
			res.Probes["library_goroutine_crash_also_when_alone"]++
		}
	}
	if deadlocked {
		if aborts1 > 0 {
			res.Probes["deadlock_after_budget_abort"]++
		} else {
			add("O4-progress", "deadlock", "every live task was blocked on a simulated primitive with no progress possible")
		}
	}
	outcome := uint64(0xcbf29ce484222325)
	mix := func(s string) { outcome = (outcome ^ strHash(s)) * 0x100000001b3 }
	for i := range pipes {
		g, w := recs[i], refs[i]
		in := &s.Inputs[pipes[i].pl.Input]
		id := "pipeline " + strconv.Itoa(i) + " (task " + strconv.Itoa(pipes[i].task) + ", input " + in.Name + ", version " + strconv.Quote(in.Version) + ")"
		if !g.done {
			if !deadlocked {
				add("O4-progress", "pipeline-not-completed", id+" never completed")
			}
			continue
		}
		mix(g.parse.out)
		mix(g.parse.errs)
		mix(g.dump)
		if g.parse.out != w.parse.out {
			sig := "parse-outcome"
			if g.parse.out == outBudget || w.parse.out == outBudget {
				sig = "parse-budget"
			}
			add("O1-equals-alone", sig, id+": parse outcome "+strconv.Quote(short(g.parse.out, 120))+" vs alone "+strconv.Quote(short(w.parse.out, 120)))
			continue
		}
		if g.parse.errs != w.parse.errs {
			add("O1-equals-alone", "parse-errors", id+": reported errors differ "+firstDiff(g.parse.errs, w.parse.errs))
		}
		if (g.parse.root == nil) != (w.parse.root == nil) {
			add("O1-equals-alone", "root-nilness", id+": root nil-ness differs")
			continue
		}
		if g.fp != w.fp {
			add("O1-equals-alone", "tree-fingerprint", id+": tree right after parsing differs from the tree parsed alone ("+g.fp+" vs "+w.fp+")")
		}
		for k := range g.ops {
			mix(g.ops[k].out)
			if g.ops[k].out != w.ops[k].out {
				add("O1-equals-alone", "op-"+pipes[i].pl.Ops[k].Kind, id+": op "+strconv.Itoa(k)+" "+pipes[i].pl.Ops[k].Kind+" "+firstDiff(g.ops[k].out, w.ops[k].out))
			}
		}
		if g.dump != w.dump {
			add("O1-equals-alone", "final-dump", id+": full dump "+firstDiff(g.dump, w.dump))
		}
		if g.fpEnd != w.fpEnd {
			add("O1-equals-alone", "final-fingerprint", id+": tree at pipeline end differs from alone ("+g.fpEnd+" vs "+w.fpEnd+")")
		}
		if g.errsEnd != w.parse.errs {
			add("O3-stays-valid", "stale-errors", id+": the error objects delivered by the parse changed by the end of the pipeline "+firstDiff(g.errsEnd, w.parse.errs))
		} else if g.errs3 != w.parse.errs {
			add("O3-stays-valid", "stale-errors", id+": the error objects delivered by the parse changed after the pipeline ended "+firstDiff(g.errs3, w.parse.errs))
		}
		if g.redump != w.dump {
			add("O3-stays-valid", "stale-dump", id+": dump after all tasks finished "+firstDiff(g.redump, w.dump))
		}
		if g.fp3 != w.fpEnd {
			add("O3-stays-valid", "stale-fingerprint", id+": tree changed after its pipeline ended ("+g.fp3+" vs "+w.fpEnd+")")
		}
		res.Ops += 1 + len(g.ops)
	}
	for i := range pipes {
		h := ""
		if recs[i].done {
			h = recs[i].hash()
		}
		res.PipeHashes = append(res.PipeHashes, h)
	}
	res.OutcomeHash = strconv.FormatUint(outcome, 16)
	res.NonTrivial = len(pipes) >= 2 && res.Preemptions >= 1
}

// runRev executes every pipeline of the scenario in this (fresh) process, one
// after the other in REVERSE order, as one task without preemption.
func runRev(s *scn.Scenario, res *scn.Result) {
	for i := range s.Inputs {
		if v := s.Inputs[i].Version; v != "" {
			if _, ok := sharedVersions[v]; !ok {
				nv, err := version.New(v)
				if err != nil {
					res.Infra = "bad version in scenario: " + v
					return
				}
				sharedVersions[v] = nv
			}
		}
	}
	pipes := flatten(s)
	recs := make([]*pipeRec, len(pipes))
	zzsim.Init(refConfig(s))
	applyKnob(s.Knob)
	zzsim.Spawn(func() {
		for k := len(pipes) - 1; k >= 0; k-- {
			recs[k] = &pipeRec{}
			runParse(s, pipes[k].pl, recs[k])
			runOps(s, pipes[k].pl, recs[k])
		}
	})
	zzsim.Run()
	res.Steps = zzsim.Steps
	for k := range pipes {
		h := ""
		if recs[k] != nil && recs[k].done {
			h = recs[k].hash()
		}
		res.PipeHashes = append(res.PipeHashes, h)
	}
}

// runIso executes ONE pipeline alone in this (fresh) process and reports the
// hash of everything it observed: the reference "the same work done alone".
func runIso(s *scn.Scenario, k int, res *scn.Result) {
	for i := range s.Inputs {
		if v := s.Inputs[i].Version; v != "" {
			if _, ok := sharedVersions[v]; !ok {
				nv, err := version.New(v)
				if err != nil {
					res.Infra = "bad version in scenario: " + v
					return
				}
				sharedVersions[v] = nv
			}
		}
	}
	pipes := flatten(s)
	if k < 0 || k >= len(pipes) {
		res.Infra = "iso: no such pipeline"
		return
	}
	rec := &pipeRec{}
	zzsim.Init(refConfig(s))
	applyKnob(s.Knob)
	zzsim.Spawn(func() {
		runParse(s, pipes[k].pl, rec)
		runOps(s, pipes[k].pl, rec)
	})
	zzsim.Run()
	res.Steps = zzsim.Steps
	res.PipeHashes = []string{rec.hash()}
	res.Trace = []string{short(rec.parse.out, 200), short(rec.parse.errs, 400)}
	for i := range rec.ops {
		res.Trace = append(res.Trace, pipes[k].pl.Ops[i].Kind+": "+short(rec.ops[i].out, 400))
	}
}
