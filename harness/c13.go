package main

import (
	"strconv"
	"strings"

	"verif/scn"

	"github.com/z7zmey/php-parser/pkg/ast"

	"github.com/z7zmey/php-parser/pkg/zzsim"
)

// target is the vertex an operation with Sub = sub is applied to.
func target(root ast.Vertex, sub int) ast.Vertex {
	if sub < 0 {
		// any vertex of the tree, by pre-order number: an expression, a name, a
		// parameter, a class member ... (the same number selects the same vertex in
		// every tree of the same source)
		if vs := vertices(root); len(vs) > 0 {
			return vs[(-sub-1)%len(vs)]
		}
		return root
	}
	if sub > 0 {
		if r, ok := root.(*ast.Root); ok && len(r.Stmts) > 0 {
			if v := r.Stmts[(sub-1)%len(r.Stmts)]; v != nil {
				return v
			}
		}
	}
	return root
}

func opKey(kind string, sub int) string {
	if sub < 0 {
		return kind + "@vertex" + strconv.Itoa(-sub-1)
	}
	if sub > 0 {
		return kind + "@stmt" + strconv.Itoa(sub-1)
	}
	return kind
}

// runC13: one tree, a history of read-only operations with writer faults, and
// the reference model "each operation on its own freshly parsed tree".
func runC13(s *scn.Scenario, res *scn.Result) {
	if len(s.Inputs) != 1 {
		res.Infra = "C13 scenario needs exactly one input"
		return
	}
	in := &s.Inputs[0]
	add := func(oracle, sig, detail string) {
		res.Violations = append(res.Violations, scn.Violation{Oracle: oracle, Sig: sig, Detail: detail})
	}
	outcome := uint64(0xcbf29ce484222325)
	mix := func(s string) { outcome = (outcome ^ strHash(s)) * 0x100000001b3 }

	zzsim.Init(simConfig(s))
	applyKnob(s.Knob)
	zzsim.Spawn(func() {
		// ---- reference table, twice, every kind on its own fresh tree
		ref := map[string]string{}
		refCalls := map[string]int{}
		refDigest := map[string]bool{} // the reference output is only known as length + hash
		type refKey struct {
			kind string
			sub  int
		}
		var keys []refKey
		for _, k := range opKinds {
			keys = append(keys, refKey{k, 0})
		}
		seenKey := map[string]bool{}
		for _, op := range s.History {
			if key := opKey(op.Kind, op.Sub); op.Sub != 0 && !seenKey[key] && len(keys) < len(opKinds)+8 {
				seenKey[key] = true
				keys = append(keys, refKey{op.Kind, op.Sub})
			}
		}
		for _, rk := range keys {
			k := opKey(rk.kind, rk.sub)
			var outs [2]string
			for rep := 0; rep < 2; rep++ {
				p := doParse(in, false)
				if p.out != "" || p.root == nil {
					res.Probes["no_tree"]++
					mix(p.out)
					return // nothing to apply operations to: trivial run
				}
				r := doOp(rk.kind, target(p.root, rk.sub), len(in.Src), nil)
				refCalls[k] = r.calls
				refDigest[k] = r.digest
				outs[rep] = r.out
			}
			if outs[0] != outs[1] {
				// the operation is not even a function of a fresh tree: whatever a
				// history produces cannot equal "the" fresh-tree output
				zzsim.AddProbe(probeNondetReference, 1)
				add("H0-reference-stable", "reference-unstable:"+k, k+" applied to two freshly parsed trees of the same source gives different outputs: "+firstDiff(outs[1], outs[0]))
				continue
			}
			ref[k] = outs[0]
			mix(outs[0])
		}
		// what a fresh process must also obtain for each kind (isolated reference)
		for _, k := range opKinds {
			h := ""
			if out, ok := ref[k]; ok {
				h = strconv.FormatUint(strHash(out)^uint64(len(out)), 16)
			}
			res.PipeHashes = append(res.PipeHashes, h)
		}

		// ---- the subject tree
		p := doParse(in, false)
		fp0 := fingerprint(p.root, p.src)
		if p.root == nil {
			add("H0-parse", "subject-parse-differs", "the subject parse returned no tree although the reference parses did: "+short(p.out, 100))
			return
		}
		check := func(i int, kind, when string) bool {
			if fp := fingerprint(p.root, p.src); fp != fp0 {
				what := "tree-modified-by:"
				if string(p.src) != string(in.Src) {
					what = "source-modified-by:"
				}
				add("H2-tree-unchanged", what+kind, "after op "+strconv.Itoa(i)+" ("+kind+when+") the tree/source fingerprint is "+fp+", was "+fp0+" right after parsing")
				return false
			}
			return true
		}
		lastKind, mixed := "", false
		for i, op := range s.History {
			if op.Kind == "gc" {
				zzsim.ForceGC()
				res.Faults["forced_gc"]++
				continue
			}
			key := opKey(op.Kind, op.Sub)
			want, ok := ref[key]
			if !ok {
				continue
			}
			if lastKind != "" && lastKind != key {
				mixed = true
			}
			lastKind = key
			if op.Sub > 0 {
				res.Probes["operation_applied_to_a_statement_of_the_tree"]++
			} else if op.Sub < 0 {
				res.Probes["operation_applied_to_an_inner_vertex_of_the_tree"]++
			}
			var f *scn.WFault
			if op.Fault != nil && refCalls[key] > 0 {
				f = &scn.WFault{Kind: op.Fault.Kind, At: op.Fault.At % refCalls[key]}
			}
			r := doOp(op.Kind, target(p.root, op.Sub), len(in.Src), f)
			res.Ops++
			mix(r.out)
			when := ""
			if r.faulted {
				when = ", writer fault " + f.Kind + " at write " + strconv.Itoa(f.At)
				switch f.Kind {
				case "err", "errsticky":
					zzsim.AddProbe(probeWriterErr, 1)
					if r.panicked && strings.HasPrefix(op.Kind, "dump") {
						zzsim.AddProbe(probeDumperPanicTaken, 1)
					}
					if !r.panicked && strings.HasPrefix(op.Kind, "print") {
						zzsim.AddProbe(probePrinterContinued, 1)
					}
				case "short":
					zzsim.AddProbe(probeWriterShort, 1)
				case "panic":
					zzsim.AddProbe(probeWriterPanic, 1)
				case "abort":
					zzsim.AddProbe(probeVisitorAbort, 1)
				}
				// narrow relaxation: only the bytes accepted before the fault are judged
				// (not judged at all when the reference is too large to be kept as
				// bytes; the tree check below still applies)
				if refDigest[key] || r.digest {
					res.Probes["faulted_output_not_judged_reference_too_large"]++
				} else if r.prefix > len(want) || r.out[:r.prefix] != want[:r.prefix] {
					add("H1-output-equals-fresh", "faulted-prefix:"+op.Kind, "op "+strconv.Itoa(i)+" ("+key+when+"): bytes accepted before the fault are not a prefix of the fresh-tree output: "+firstDiff(r.out[:r.prefix], want))
					break
				}
			} else if r.out != want {
				add("H1-output-equals-fresh", "output:"+op.Kind, "op "+strconv.Itoa(i)+" ("+key+") after "+strconv.Itoa(i)+" earlier operations differs from the same operation on a fresh tree: "+firstDiff(r.out, want))
				break
			}
			if !check(i, key, when) {
				break
			}
		}
		res.NonTrivial = res.Ops >= 2 && mixed
		if len(res.Violations) > 0 {
			return
		}
		// ---- at the end every kind once more, fault-free
		for _, k := range opKinds {
			want, ok := ref[k]
			if !ok {
				continue
			}
			r := doOp(k, p.root, len(in.Src), nil)
			if r.out != want {
				add("H1-output-equals-fresh", "final-output:"+k, "after the whole history, "+k+" differs from the same operation on a fresh tree: "+firstDiff(r.out, want))
				return
			}
			if !check(len(s.History), k, " (final pass)") {
				return
			}
		}
	})
	zzsim.Run()
	if zzsim.StuckOutside {
		res.Infra = "a task blocked outside the simulator"
		return
	}
	snapshotPhase1(res)
	res.OutcomeHash = strconv.FormatUint(outcome, 16)
}

// runIsoC13 computes ONE operation kind on a freshly parsed tree in this fresh
// process: nothing else has run here, so state that the in-process reference
// table inherits from earlier operations cannot be present.
func runIsoC13(s *scn.Scenario, k int, res *scn.Result) {
	if len(s.Inputs) != 1 || k < 0 || k >= len(opKinds) {
		res.Infra = "iso: bad request"
		return
	}
	in := &s.Inputs[0]
	zzsim.Init(refConfig(s))
	applyKnob(s.Knob)
	zzsim.Spawn(func() {
		p := doParse(in, false)
		if p.out != "" || p.root == nil {
			res.PipeHashes = []string{""}
			return
		}
		r := doOp(opKinds[k], p.root, len(in.Src), nil)
		res.PipeHashes = []string{strconv.FormatUint(strHash(r.out)^uint64(len(r.out)), 16)}
		res.Trace = []string{opKinds[k] + ": " + short(r.out, 600)}
	})
	zzsim.Run()
	res.Steps = zzsim.Steps
}
