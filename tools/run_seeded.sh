#!/bin/bash
# run_seeded.sh <seeded-id> [runs] [extra verif-check flags...]
# Applies seeded/<id>/patch.diff to a scratch copy of /repo (never to /repo
# itself), runs the check of the property it breaks against that copy via
# VERIF_REPO, prints the verdict line and removes the copy.
set -u
V=$(cd "$(dirname "$0")/.." && pwd)
ID=$1; RUNS=${2:-0}; shift; shift || true
D=$V/seeded/$ID
PROP=$(python3 -c "import json;print(json.load(open('$D/meta.json'))['breaks_property'])")
S=$(mktemp -d /var/tmp/seeded-XXXXXX)
rsync -a --exclude .git /repo/ $S/repo/
(cd $S/repo && git init -q . 2>/dev/null; git apply --unsafe-paths -p1 $D/patch.diff) || { echo "$ID: patch does not apply"; rm -rf $S; exit 9; }
mkdir -p $S/replays
VERIF_REPO=$S/repo VERIF_REPLAY_DIR=$S/replays $V/check.sh ${PROP_OVERRIDE:-$PROP} --runs $RUNS --no-evidence "$@" > $S/log.txt 2>&1
rc=$?
echo "== $ID ($PROP) exit=$rc"
grep -E "^(VIOLATION|violation in run|minimised|KNOWN|OK |NO VERDICT|[0-9]+ simulated runs|scenario C|verif-check: INFRA|infrastructure)" $S/log.txt | cut -c1-300
grep -E "^further violation" $S/log.txt | cut -c1-160 | head -${FURTHER:-3}
grep -A12 "^violation in run" $S/log.txt | grep -v "^violation in run" | head -${DETAIL:-0}
if [ -n "${KEEP_REPLAY:-}" ]; then mkdir -p /var/tmp/seeded-replays/$ID; cp $S/replays/* /var/tmp/seeded-replays/$ID/ 2>/dev/null; cp $S/log.txt /var/tmp/seeded-replays/$ID/; fi
rm -rf $S
exit $rc
