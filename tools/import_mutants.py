#!/usr/bin/env python3
"""import_mutants.py <worktree> <wave> k=id:prop:needs ... : copy confirmed changes from a sub-agent's worktree into seeded/."""
import sys, os, shutil, json
V = os.path.dirname(os.path.dirname(os.path.abspath(__file__)))
wt, wave = sys.argv[1], sys.argv[2]
for spec in sys.argv[3:]:
    k, rest = spec.split("=", 1)
    id_, prop, needs = rest.split(":", 2)
    src = f"{wt}/out/{k}"; dst = f"{V}/seeded/{id_}"
    os.makedirs(dst + "/demo", exist_ok=True)
    shutil.copy(src + "/patch.diff", dst + "/patch.diff")
    shutil.copy(src + "/notes.md", dst + "/notes.md")
    if os.path.exists(src + "/demo/main.go"):
        shutil.copy(src + "/demo/main.go", dst + "/demo/main.go.txt")
        notes = open(src + "/notes.md").read()
        race = "-race " if "go run -race" in notes else ""
        demo = f"go run {race}./out/{k}/demo   (demo/main.go.txt is that program)"
    else:
        shutil.copy(src + "/demo_test.go", dst + "/demo_test.go.txt")
        demo = "go test (see notes.md; demo_test.go.txt is the test file)"
    meta = {"id": id_, "breaks_property": prop, "needs_to_manifest": needs, "demo_command": demo,
            "origin": f"independent sub-agent given only the property text and a scratch worktree ({wave}, {os.path.basename(wt)}, change {k})",
            "confirmed": {"how": "tools/verify_mutant.sh in the scratch worktree: demo on the clean tree, git apply, go build ./..., full test suite, demo with the change",
                          "demo_on_clean_tree_exit": 0, "patch_applies": True, "builds": True, "full_suite_passes_with_change": True, "demo_with_change_exit": 1},
            "detected_by": "see DESIGN.md section 11"}
    json.dump(meta, open(dst + "/meta.json", "w"), indent=1)
    print("imported", id_)
