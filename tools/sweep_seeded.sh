#!/bin/bash
# sweep_seeded.sh [runs] [pattern]: every seeded defect against the check of its property.
# runs = 0: the quick tier's own run count and time budget. With a run count the time
# budget is lifted (SWEEP_BUDGET seconds, default 1200) so that the verdict does not depend
# on how loaded the machine is; no further run is started once one has shown a violation.
V=$(cd "$(dirname "$0")/.." && pwd)
RUNS=${1:-0}; PAT=${2:-}
EXTRA=""
if [ "$RUNS" != 0 ]; then EXTRA="--budget ${SWEEP_BUDGET:-1200}"; fi
for d in $V/seeded/*${PAT}*/; do $V/tools/run_seeded.sh $(basename $d) $RUNS --max-report 1 --min-candidates 80 --stop-at-first $EXTRA ${SWEEP_FLAGS:-}; done
