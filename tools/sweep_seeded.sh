#!/bin/bash
# sweep_seeded.sh [runs] [pattern]: every seeded defect against the check of its property
V=$(cd "$(dirname "$0")/.." && pwd)
RUNS=${1:-0}; PAT=${2:-}
for d in $V/seeded/*${PAT}*/; do $V/tools/run_seeded.sh $(basename $d) $RUNS --max-report 1 --min-candidates 80; done
