#!/usr/bin/env python3
"""sweep_table.py <sweep log>... : markdown table of a seeded-defect sweep (tools/sweep_seeded.sh output)."""
import sys, re, json, os
V = os.path.dirname(os.path.dirname(os.path.abspath(__file__)))
rows = {}
cur = None
for path in sys.argv[1:]:
    for line in open(path, errors="replace"):
        m = re.match(r"== (\S+) \((C\d+)\) exit=(\d+)", line)
        if m:
            cur = m.group(1)
            rows[cur] = {"prop": m.group(2), "exit": int(m.group(3)), "first": None, "oracle": "", "runs": ""}
            continue
        if cur is None:
            continue
        m = re.match(r"(\d+) simulated runs", line)
        if m:
            rows[cur]["runs"] = m.group(1)
        m = re.match(r"violation in run (\d+) \(seed \d+\): (\S+) (.*)", line)
        if m and rows[cur]["first"] is None:
            rows[cur]["first"] = int(m.group(1))
            rows[cur]["oracle"] = m.group(2) + " `" + m.group(3).strip()[:70] + "`"
print("| seeded defect | needs, in order to manifest | verdict | first violating run | oracle and signature of the reported violation |")
print("|---|---|---|---|---|")
for k in sorted(rows):
    r = rows[k]
    needs = ""
    try:
        needs = json.load(open(os.path.join(V, "seeded", k, "meta.json")))["needs_to_manifest"]
    except Exception:
        pass
    verdict = {0: "**missed**", 1: "caught", 2: "no verdict (exit 2)"}.get(r["exit"], str(r["exit"]))
    print("| %s | %s | %s | %s of %s | %s |" % (k, needs.replace("|", "/"), verdict, r["first"] if r["first"] is not None else "-", r["runs"], r["oracle"]))
n = len(rows); c = sum(1 for r in rows.values() if r["exit"] == 1)
print("\n%d of %d caught." % (c, n))
