#!/bin/bash
# run_patch.sh <patch.diff> <C11|C13|C18> [runs] [extra verif-check flags...]
# Applies a patch to a scratch copy of /repo (never to /repo itself) and runs
# the property's check against the copy via VERIF_REPO.
set -u
V=$(cd "$(dirname "$0")/.." && pwd)
PATCH=$(readlink -f "$1"); PROP=$2; RUNS=${3:-3000}; shift; shift; shift || true
S=$(mktemp -d /var/tmp/patched-XXXXXX)
rsync -a --exclude .git /repo/ $S/repo/
(cd $S/repo && git init -q . 2>/dev/null; git apply --unsafe-paths -p1 "$PATCH") || { echo "patch does not apply: $PATCH"; rm -rf $S; exit 9; }
mkdir -p $S/replays
VERIF_REPO=$S/repo VERIF_REPLAY_DIR=$S/replays $V/check.sh $PROP --runs $RUNS --no-evidence "$@" > $S/log.txt 2>&1
rc=$?
echo "== $PATCH ($PROP) exit=$rc"
grep -E "^(VIOLATION|violation in run|minimised|KNOWN|OK |NO VERDICT|[0-9]+ simulated runs|scenario C|block-size knob|verif-check: INFRA|infrastructure|further violation)" $S/log.txt | cut -c1-400
grep -A14 "^violation in run" $S/log.txt | grep -v "^violation in run" | head -${DETAIL:-0}
rm -rf $S
exit $rc
