#!/bin/bash
# verify_mutant.sh <worktree> <k> <demo-kind> [race]
#   demo-kind: run            -> go run [-race] ./out/k/demo
#              test:<pkgdir>:<TestName>  -> copy out/k/demo_test.go into pkgdir, go test [-race] -run TestName
# Confirms: demo passes on the clean tree; patch applies; builds; full suite passes; demo fails with patch.
export GOFLAGS=-mod=mod GOPROXY=off GOSUMDB=off GOTOOLCHAIN=local
W=$1; K=$2; KIND=$3; RACE=${4:-}
cd $W || exit 9
clean() { git checkout -q -- . ; git clean -fdq -e out -e TASK.md; }
demo() {
  case $KIND in
    run) timeout 600 go run $RACE ./out/$K/demo >/tmp/demo.$$.log 2>&1;;
    test:*) IFS=: read _ PKG TN <<<"$KIND"; cp out/$K/demo_test.go $PKG/zz_demo_test.go; timeout 900 go test $RACE -vet=off -count=1 -run "$TN" ./$PKG/ >/tmp/demo.$$.log 2>&1; rc=$?; rm -f $PKG/zz_demo_test.go; return $rc;;
  esac
}
clean
demo; base=$?
git apply out/$K/patch.diff || { echo "RESULT $W/$K apply-failed"; clean; exit 1; }
go build ./... >/tmp/build.$$.log 2>&1; b=$?
# exclude out/ demos from the suite run
go test -vet=off -count=1 $(go list ./... | grep -v '/out/') >/tmp/suite.$$.log 2>&1; s=$?
nfail=$(grep -c '^--- FAIL' /tmp/suite.$$.log)
demo; mut=$?
tail -3 /tmp/demo.$$.log | cut -c1-200
clean
echo "RESULT $W/$K demo_clean_exit=$base build=$b suite=$s suite_fail_lines=$nfail demo_mutant_exit=$mut"
rm -f /tmp/demo.$$.log /tmp/build.$$.log /tmp/suite.$$.log
