#!/bin/bash
# sweep_benign.sh [runs] [pattern]: every benign change against the check of the
# property it targets (taken from the directory name); all must stay quiet (exit 0).
V=$(cd "$(dirname "$0")/.." && pwd)
RUNS=${1:-0}; PAT=${2:-}
for d in $V/benign/*${PAT}*/; do
  id=$(basename $d); prop=${id%%-*}
  $V/tools/run_patch.sh $d/patch.diff $prop $RUNS --max-report 1 --min-candidates 40 | sed "s|^== .*patch.diff|== $id|"
  extra=$(python3 -c "import json,sys;print(' '.join(json.load(open('$d/meta.json')).get('also_check',[])))" 2>/dev/null)
  for p in $extra; do $V/tools/run_patch.sh $d/patch.diff $p $RUNS --max-report 1 --min-candidates 40 | sed "s|^== .*patch.diff|== $id|"; done
done
