// verif-instrument: rewrites a scratch copy of the repository so that the
// simulator owns scheduling. See DESIGN.md 2.1.
package main

import (
	"bytes"
	"encoding/json"
	"flag"
	"fmt"
	"go/ast"
	"go/format"
	"go/importer"
	"go/parser"
	"go/token"
	"go/types"
	"os"
	"path/filepath"
	"sort"
	"strconv"
	"strings"
	"sync"
)

const modPath = "github.com/z7zmey/php-parser"
const simPkg = modPath + "/pkg/zzsim"
const syncPkg = modPath + "/pkg/zzsimsync"
const flagPkg = modPath + "/pkg/zzsimflag"
const osPkg = modPath + "/pkg/zzsimos"
const timePkg = modPath + "/pkg/zzsimtime"
const bigFile = 300000

type site struct {
	ID   int    `json:"id"`
	File string `json:"file"`
	Line int    `json:"line"`
	Func string `json:"func"`
	Kind string `json:"kind"`
	Out  int    `json:"out"`            // line of the zzsim.Y call in the rewritten file
	Sync bool   `json:"sync,omitempty"` // next to a statement that uses a sync / sync/atomic primitive
}

type report struct {
	Sites       []site            `json:"sites"`
	Files       map[string]int    `json:"files"`
	SyncRewrite []string          `json:"sync_rewritten"`
	GoStmts     []string          `json:"go_stmts"`
	ChanOps     []string          `json:"chan_ops"`
	ChanWrapped []string          `json:"chan_wrapped"`
	Gosched     []string          `json:"gosched"`
	Knob        map[string]string `json:"knob"`
	Finalizers  []string          `json:"finalizers"`     // runtime.SetFinalizer calls redirected to the simulator
	Timers      []string          `json:"timers"`         // real-clock waits the simulator does not own
	TimeRewrite []string          `json:"time_rewritten"` // files whose import "time" now reads and waits on the simulated clock
	ClockWaits  int               `json:"clock_waits"`    // Sleep/After/AfterFunc/NewTimer/NewTicker/Tick call sites brought under the simulated clock
	CLI         []string          `json:"cli_redirected"` // process-global facilities redirected in cmd/php-parser
	CLIMain     bool              `json:"cli_main"`       // func main found and exported as ZZMain
	SyncLib     int               `json:"sync_lib"`       // library files importing sync or sync/atomic
	UnsafeFiles []string          `json:"unsafe_files"`   // files importing unsafe, or using reflect.SliceHeader / StringHeader
	// places where DefaultBlockSize is used inside an expression (not passed on
	// as it is): small knob values could then yield sizes the tree never meets
	KnobEntangled []string `json:"knob_entangled"`
	NewPoolNoted  []string `json:"newpool_noted"`
}

var noKnob, noTime bool

var rep = report{Files: map[string]int{}, Knob: map[string]string{}}

type inst struct {
	fset     *token.FileSet
	rel      string
	every    bool
	curFunc  string
	done     map[*ast.BlockStmt]bool
	brkLabel map[string]bool
	used     bool
	syncFile bool // the file imports sync or sync/atomic
	markSync bool // the site being created is next to a sync-using statement
}

// names of methods / functions through which sync, sync/atomic and pool-like
// objects are used: a yield site next to such a statement belongs to the site
// class "sync"
var syncNames = map[string]bool{
	"Lock": true, "Unlock": true, "RLock": true, "RUnlock": true, "TryLock": true, "TryRLock": true,
	"Load": true, "Store": true, "Swap": true, "CompareAndSwap": true, "Add": true, "And": true, "Or": true,
	"LoadOrStore": true, "LoadAndDelete": true, "Delete": true, "CompareAndDelete": true, "Range": true,
	"Get": true, "Put": true, "Do": true, "Wait": true, "Done": true, "Signal": true, "Broadcast": true,
}

// usesSync: does the statement itself (not the blocks nested in it) call one of syncNames?
func usesSync(s ast.Stmt) bool {
	found := false
	ast.Inspect(s, func(n ast.Node) bool {
		switch x := n.(type) {
		case *ast.BlockStmt, *ast.FuncLit:
			return false
		case *ast.CallExpr:
			switch f := x.Fun.(type) {
			case *ast.SelectorExpr:
				name := f.Sel.Name
				if syncNames[name] || strings.HasPrefix(name, "Load") || strings.HasPrefix(name, "Store") || strings.HasPrefix(name, "Add") || strings.HasPrefix(name, "Swap") || strings.HasPrefix(name, "CompareAndSwap") {
					found = true
				}
			}
		}
		return !found
	})
	return found
}

func (in *inst) ycall(pos token.Pos, kind string) ast.Stmt {
	id := len(rep.Sites) + 1
	p := in.fset.Position(pos)
	rep.Sites = append(rep.Sites, site{ID: id, File: in.rel, Line: p.Line, Func: in.curFunc, Kind: kind, Sync: in.markSync})
	in.used = true
	return &ast.ExprStmt{X: &ast.CallExpr{
		Fun:  &ast.SelectorExpr{X: ast.NewIdent("zzsim"), Sel: ast.NewIdent("Y")},
		Args: []ast.Expr{&ast.BasicLit{Kind: token.INT, Value: strconv.Itoa(id)}},
	}}
}

func (in *inst) list(list []ast.Stmt, startKind string) []ast.Stmt {
	out := make([]ast.Stmt, 0, 2*len(list)+1)
	if startKind != "" {
		pos := token.NoPos
		if len(list) > 0 {
			pos = list[0].Pos()
			in.markSync = in.syncFile && usesSync(list[0])
		}
		out = append(out, in.ycall(pos, startKind))
		in.markSync = false
	}
	for i, s := range list {
		if in.every && i > 0 {
			in.markSync = in.syncFile && (usesSync(s) || usesSync(list[i-1]))
			out = append(out, in.ycall(s.Pos(), "stmt"))
			in.markSync = false
		}
		pre, post := in.chanWait(s)
		out = append(out, pre...)
		if post != nil {
			out = append(out, s, post)
			continue
		}
		if ls, ok := s.(*ast.LabeledStmt); ok && !in.brkLabel[ls.Label.Name] {
			switch ls.Stmt.(type) {
			case *ast.ForStmt, *ast.RangeStmt, *ast.SwitchStmt, *ast.TypeSwitchStmt, *ast.SelectStmt:
			default:
				inner := ls.Stmt
				ls.Stmt = in.ycall(ls.Pos(), "label")
				out = append(out, ls, inner)
				continue
			}
		}
		out = append(out, s)
	}
	return out
}

func simCall(name string, arg ast.Expr) ast.Stmt {
	return &ast.ExprStmt{X: &ast.CallExpr{
		Fun:  &ast.SelectorExpr{X: ast.NewIdent("zzsim"), Sel: ast.NewIdent(name)},
		Args: []ast.Expr{arg},
	}}
}

func hasCall(e ast.Expr) bool {
	found := false
	ast.Inspect(e, func(n ast.Node) bool {
		switch n.(type) {
		case *ast.CallExpr:
			found = true
		case *ast.FuncLit:
			return false
		}
		return !found
	})
	return found
}

func afterChanOp(isSend bool) ast.Stmt {
	v := "false"
	if isSend {
		v = "true"
	}
	return simCall("AfterChanOp", ast.NewIdent(v))
}

// chanWait returns what to put in front of (and, for a send or receive,
// behind) a statement-level channel operation (send, receive, close, select).
func (in *inst) chanWait(s ast.Stmt) (pre []ast.Stmt, post ast.Stmt) {
	w, post := in.chanWait1(s, &pre)
	if w != nil {
		pre = append(pre, w)
	}
	return pre, post
}

var hoisted int

func (in *inst) chanWait1(s ast.Stmt, pre *[]ast.Stmt) (ast.Stmt, ast.Stmt) {
	var post ast.Stmt
	recvOf := func(e ast.Expr) ast.Expr {
		if u, ok := e.(*ast.UnaryExpr); ok && u.Op == token.ARROW {
			return u.X
		}
		return nil
	}
	var w ast.Stmt
	switch x := s.(type) {
	case *ast.SendStmt:
		if hasCall(x.Value) {
			// the value is computed before the send can block: keep it that
			// way, outside the window in which the statement may run without
			// the run token (zzsim rendezvous)
			hoisted++
			nm := ast.NewIdent("zzsend" + strconv.Itoa(hoisted))
			*pre = append(*pre, &ast.AssignStmt{Lhs: []ast.Expr{nm}, Tok: token.DEFINE, Rhs: []ast.Expr{x.Value}})
			x.Value = ast.NewIdent(nm.Name)
		}
		w = simCall("WaitSend", x.Chan)
		post = afterChanOp(true)
	case *ast.ExprStmt:
		if ch := recvOf(x.X); ch != nil {
			w = simCall("WaitRecv", ch)
			post = afterChanOp(false)
		} else if c, ok := x.X.(*ast.CallExpr); ok {
			if id, ok := c.Fun.(*ast.Ident); ok && id.Name == "close" && len(c.Args) == 1 {
				w = simCall("Closed", c.Args[0])
			}
		}
	case *ast.AssignStmt:
		if len(x.Rhs) == 1 {
			if ch := recvOf(x.Rhs[0]); ch != nil {
				w = simCall("WaitRecv", ch)
				post = afterChanOp(false)
			}
		}
	case *ast.DeferStmt:
		// defer close(ch): the simulator must learn of the close when it happens
		if id, ok := x.Call.Fun.(*ast.Ident); ok && id.Name == "close" && len(x.Call.Args) == 1 {
			hoisted++
			nm := "zzdc" + strconv.Itoa(hoisted)
			*pre = append(*pre, &ast.AssignStmt{Lhs: []ast.Expr{ast.NewIdent(nm)}, Tok: token.DEFINE, Rhs: []ast.Expr{x.Call.Args[0]}})
			// no yield point may come between telling the simulator and closing
			body := &ast.BlockStmt{List: []ast.Stmt{
				simCall("Closed", ast.NewIdent(nm)),
				&ast.ExprStmt{X: &ast.CallExpr{Fun: ast.NewIdent("close"), Args: []ast.Expr{ast.NewIdent(nm)}}},
			}}
			in.done[body] = true
			x.Call = &ast.CallExpr{Fun: &ast.FuncLit{Type: &ast.FuncType{Params: &ast.FieldList{}}, Body: body}}
			in.used = true
			rep.ChanWrapped = append(rep.ChanWrapped, fmt.Sprintf("%s:%d(defer close)", in.rel, in.fset.Position(s.Pos()).Line))
		}
		return nil, nil
	case *ast.SelectStmt:
		// rewritten as a whole after the walk (desugarSelects)
		return nil, nil
	}
	if w != nil {
		in.used = true
		p := in.fset.Position(s.Pos())
		rep.ChanWrapped = append(rep.ChanWrapped, fmt.Sprintf("%s:%d", in.rel, p.Line))
	}
	return w, post
}

// desugarSelects rewrites every select statement into
//
//	zzselK_0, zzselK_1 := <channel expressions, evaluated once, in order>
//	zzselK_v1 := <value of a send case, if it contains a call>
//	switch zzsim.Select([]interface{}{zzselK_0, zzselK_1}, []bool{false, true}, <has default>) {
//	case 0:  zzsim.WaitRecv(zzselK_0); x := <-zzselK_0; zzsim.AfterChanOp(false); body...
//	case 1:  zzsim.WaitSend(zzselK_1); zzselK_1 <- zzselK_v1; zzsim.AfterChanOp(true); body...
//	case -1: default body...
//	}
//
// The simulator - not the Go runtime's random choice among ready cases -
// decides which case runs (a recorded decision), and the chosen case is an
// ordinary statement-level channel operation, so unbuffered channels work in
// select exactly as they do outside. `break` keeps its meaning (it leaves the
// switch as it left the select); a label on the select moves to the switch.
func (in *inst) desugarSelects(f *ast.File) {
	n := 0
	conv := func(sel *ast.SelectStmt) (pre []ast.Stmt, sw *ast.SwitchStmt) {
		n++
		var chans, sends []ast.Expr
		hasDefault := "false"
		var cases []ast.Stmt
		idx := 0
		for _, c := range sel.Body.List {
			cc := c.(*ast.CommClause)
			var ch *ast.Expr
			var valTemp ast.Stmt
			isSend := false
			switch y := cc.Comm.(type) {
			case nil:
				hasDefault = "true"
				cases = append(cases, &ast.CaseClause{List: []ast.Expr{&ast.UnaryExpr{Op: token.SUB, X: &ast.BasicLit{Kind: token.INT, Value: "1"}}}, Body: cc.Body})
				continue
			case *ast.SendStmt:
				ch, isSend = &y.Chan, true
				if hasCall(y.Value) {
					nm := "zzsel" + strconv.Itoa(n) + "_v" + strconv.Itoa(idx)
					valTemp = &ast.AssignStmt{Lhs: []ast.Expr{ast.NewIdent(nm)}, Tok: token.DEFINE, Rhs: []ast.Expr{y.Value}}
					y.Value = ast.NewIdent(nm)
				}
			case *ast.ExprStmt:
				if u, ok := y.X.(*ast.UnaryExpr); ok && u.Op == token.ARROW {
					ch = &u.X
				}
			case *ast.AssignStmt:
				if len(y.Rhs) == 1 {
					if u, ok := y.Rhs[0].(*ast.UnaryExpr); ok && u.Op == token.ARROW {
						ch = &u.X
					}
				}
			}
			if ch == nil {
				continue // not a form the language allows
			}
			nm := "zzsel" + strconv.Itoa(n) + "_" + strconv.Itoa(idx)
			pre = append(pre, &ast.AssignStmt{Lhs: []ast.Expr{ast.NewIdent(nm)}, Tok: token.DEFINE, Rhs: []ast.Expr{*ch}})
			if valTemp != nil {
				pre = append(pre, valTemp)
			}
			*ch = ast.NewIdent(nm)
			chans = append(chans, ast.NewIdent(nm))
			wait, flag := "WaitRecv", "false"
			if isSend {
				wait, flag = "WaitSend", "true"
			}
			sends = append(sends, ast.NewIdent(flag))
			body := append([]ast.Stmt{simCall(wait, ast.NewIdent(nm)), cc.Comm, afterChanOp(isSend)}, cc.Body...)
			cases = append(cases, &ast.CaseClause{List: []ast.Expr{&ast.BasicLit{Kind: token.INT, Value: strconv.Itoa(idx)}}, Body: body})
			idx++
		}
		in.used = true
		rep.ChanWrapped = append(rep.ChanWrapped, fmt.Sprintf("%s:%d(select)", in.rel, in.fset.Position(sel.Pos()).Line))
		tag := &ast.CallExpr{
			Fun: &ast.SelectorExpr{X: ast.NewIdent("zzsim"), Sel: ast.NewIdent("Select")},
			Args: []ast.Expr{
				&ast.CompositeLit{Type: &ast.ArrayType{Elt: &ast.InterfaceType{Methods: &ast.FieldList{}}}, Elts: chans},
				&ast.CompositeLit{Type: &ast.ArrayType{Elt: ast.NewIdent("bool")}, Elts: sends},
				ast.NewIdent(hasDefault),
			},
		}
		// a select is a terminating statement when its clauses are; the switch
		// needs a default clause to be one too (never taken: Select returns the
		// index of an existing clause)
		cases = append(cases, &ast.CaseClause{Body: []ast.Stmt{&ast.ExprStmt{X: &ast.CallExpr{Fun: ast.NewIdent("panic"), Args: []ast.Expr{&ast.BasicLit{Kind: token.STRING, Value: `"zzsim: select chose a clause that does not exist"`}}}}}})
		return pre, &ast.SwitchStmt{Tag: tag, Body: &ast.BlockStmt{List: cases}}
	}
	fix := func(list []ast.Stmt) []ast.Stmt {
		var out []ast.Stmt
		for _, st := range list {
			switch x := st.(type) {
			case *ast.SelectStmt:
				pre, sw := conv(x)
				out = append(append(out, pre...), sw)
				continue
			case *ast.LabeledStmt:
				if sel, ok := x.Stmt.(*ast.SelectStmt); ok {
					pre, sw := conv(sel)
					x.Stmt = sw
					out = append(append(out, pre...), x)
					continue
				}
			}
			out = append(out, st)
		}
		return out
	}
	// innermost first: ast.Inspect visits parents before children, so collect
	// and process in reverse
	var blocks []ast.Node
	ast.Inspect(f, func(nd ast.Node) bool {
		switch nd.(type) {
		case *ast.BlockStmt, *ast.CaseClause, *ast.CommClause:
			blocks = append(blocks, nd)
		}
		return true
	})
	for i := len(blocks) - 1; i >= 0; i-- {
		switch x := blocks[i].(type) {
		case *ast.BlockStmt:
			x.List = fix(x.List)
		case *ast.CaseClause:
			x.Body = fix(x.Body)
		case *ast.CommClause:
			x.Body = fix(x.Body)
		}
	}
}

func (in *inst) body(b *ast.BlockStmt, kind string) {
	if b == nil || in.done[b] {
		return
	}
	in.done[b] = true
	b.List = in.list(b.List, kind)
}

func (in *inst) walk(n ast.Node) {
	ast.Inspect(n, func(n ast.Node) bool {
		switch x := n.(type) {
		case *ast.FuncDecl:
			in.curFunc = x.Name.Name
			if x.Recv != nil && len(x.Recv.List) > 0 {
				var b bytes.Buffer
				format.Node(&b, in.fset, x.Recv.List[0].Type)
				in.curFunc = "(" + b.String() + ")." + x.Name.Name
			}
			in.body(x.Body, "func")
		case *ast.FuncLit:
			in.body(x.Body, "funclit")
		case *ast.ForStmt:
			in.body(x.Body, "loop")
		case *ast.RangeStmt:
			in.body(x.Body, "loop")
		case *ast.SwitchStmt:
			in.done[x.Body] = true
		case *ast.TypeSwitchStmt:
			in.done[x.Body] = true
		case *ast.SelectStmt:
			in.done[x.Body] = true
		case *ast.CaseClause:
			x.Body = in.list(x.Body, "case")
		case *ast.CommClause:
			x.Body = in.list(x.Body, "case")
		case *ast.BlockStmt:
			if !in.done[x] {
				in.done[x] = true
				// also at the start of if/else bodies and bare blocks: the gap
				// between a condition and the first statement it guards is the
				// classic check-then-act window
				kind := ""
				if in.every && len(x.List) > 0 {
					kind = "block"
				}
				x.List = in.list(x.List, kind)
			}
		}
		return true
	})
}

// unwrappable reports channel constructs the statement-level rewrite cannot
// bring under the scheduler: select, and receives nested inside expressions.
func unwrappable(f *ast.File) (found []string) {
	stmtLevel := map[*ast.UnaryExpr]bool{}
	ast.Inspect(f, func(n ast.Node) bool {
		switch x := n.(type) {
		case *ast.ExprStmt:
			if u, ok := x.X.(*ast.UnaryExpr); ok && u.Op == token.ARROW {
				stmtLevel[u] = true
			}
		case *ast.AssignStmt:
			if len(x.Rhs) == 1 {
				if u, ok := x.Rhs[0].(*ast.UnaryExpr); ok && u.Op == token.ARROW {
					simple := !hasCall(u.X)
					for _, l := range x.Lhs {
						if hasCall(l) {
							simple = false // a call on the left would run inside the rendezvous window
						}
					}
					if simple {
						stmtLevel[u] = true
					}
				}
			}
		}
		return true
	})
	ast.Inspect(f, func(n ast.Node) bool {
		switch x := n.(type) {
		case *ast.UnaryExpr:
			if x.Op == token.ARROW && !stmtLevel[x] {
				found = append(found, "recv-in-expr")
			}
		}
		return true
	})
	return
}

func processFile(root, path string, isCmd bool) error {
	rel, _ := filepath.Rel(root, path)
	fset := token.NewFileSet()
	f, err := parser.ParseFile(fset, path, nil, parser.ParseComments)
	if err != nil {
		return err
	}
	// keep only build-constraint comments that precede the package clause
	var keep []*ast.CommentGroup
	for _, cg := range f.Comments {
		if cg.End() < f.Package {
			for _, c := range cg.List {
				if strings.HasPrefix(c.Text, "//go:build") || strings.HasPrefix(c.Text, "// +build") {
					keep = append(keep, cg)
					break
				}
			}
		}
	}
	f.Comments = keep
	f.Doc = nil
	info, _ := os.Stat(path)
	in := &inst{fset: fset, rel: rel, every: info.Size() < bigFile, done: map[*ast.BlockStmt]bool{}, brkLabel: map[string]bool{}}
	ast.Inspect(f, func(n ast.Node) bool {
		if b, ok := n.(*ast.BranchStmt); ok && b.Label != nil && (b.Tok == token.BREAK || b.Tok == token.CONTINUE) {
			in.brkLabel[b.Label.Name] = true
		}
		return true
	})

	// files that can break memory safety
	for _, im := range f.Imports {
		if im.Path.Value == `"unsafe"` {
			rep.UnsafeFiles = append(rep.UnsafeFiles, rel)
		}
		if im.Path.Value == `"reflect"` {
			rn := importName(im)
			hdr := false
			ast.Inspect(f, func(n ast.Node) bool {
				if se, ok := n.(*ast.SelectorExpr); ok {
					if id, ok := se.X.(*ast.Ident); ok && id.Name == rn && (se.Sel.Name == "SliceHeader" || se.Sel.Name == "StringHeader") {
						hdr = true
					}
				}
				return true
			})
			if hdr {
				rep.UnsafeFiles = append(rep.UnsafeFiles, rel)
			}
		}
	}
	// "sync" -> zzsimsync ; record chan ops and go statements
	for _, im := range f.Imports {
		if im.Path.Value == `"sync"` || im.Path.Value == `"sync/atomic"` {
			in.syncFile = true
			if !isCmd {
				rep.SyncLib++
			}
		}
		if im.Path.Value == `"sync"` {
			im.Path.Value = strconv.Quote(syncPkg)
			if im.Name == nil {
				im.Name = ast.NewIdent("sync")
			}
			rep.SyncRewrite = append(rep.SyncRewrite, rel)
		}
	}
	for _, k := range unwrappable(f) {
		rep.ChanOps = append(rep.ChanOps, rel+":"+k)
	}
	// real-clock waits: not under the simulator's control
	timeName := ""
	for _, im := range f.Imports {
		if im.Path.Value == `"time"` {
			timeName = importName(im)
		}
	}
	if timeName != "" {
		clock := false
		var waits []string
		ast.Inspect(f, func(n ast.Node) bool {
			if se, ok := n.(*ast.SelectorExpr); ok {
				if id, ok := se.X.(*ast.Ident); ok && id.Name == timeName && id.Obj == nil {
					switch se.Sel.Name {
					case "Sleep", "After", "AfterFunc", "NewTimer", "NewTicker", "Tick":
						waits = append(waits, fmt.Sprintf("%s:%d time.%s", rel, fset.Position(se.Pos()).Line, se.Sel.Name))
						clock = true
					case "Now", "Since", "Until", "Timer", "Ticker":
						clock = true
					}
				}
			}
			return true
		})
		if clock && !noTime {
			// the file touches the clock: its "time" becomes the simulated clock
			for _, im := range f.Imports {
				if im.Path.Value == `"time"` {
					im.Path.Value = strconv.Quote(timePkg)
					if im.Name == nil {
						im.Name = ast.NewIdent("time")
					}
				}
			}
			rep.TimeRewrite = append(rep.TimeRewrite, rel)
			rep.ClockWaits += len(waits)
		} else {
			rep.Timers = append(rep.Timers, waits...)
		}
	}
	// deadlines of package context run on the runtime's own timers
	for _, im := range f.Imports {
		if im.Path.Value == `"context"` {
			cn := importName(im)
			ast.Inspect(f, func(n ast.Node) bool {
				if se, ok := n.(*ast.SelectorExpr); ok {
					if id, ok := se.X.(*ast.Ident); ok && id.Name == cn && id.Obj == nil && (se.Sel.Name == "WithTimeout" || se.Sel.Name == "WithDeadline" || se.Sel.Name == "WithTimeoutCause" || se.Sel.Name == "WithDeadlineCause") {
						rep.Timers = append(rep.Timers, fmt.Sprintf("%s:%d context.%s", rel, fset.Position(se.Pos()).Line, se.Sel.Name))
					}
				}
				return true
			})
		}
	}
	// runtime.Gosched() -> zzsim.Gosched(), runtime.SetFinalizer -> zzsim.SetFinalizer
	keepRuntime := false
	ast.Inspect(f, func(n ast.Node) bool {
		if c, ok := n.(*ast.CallExpr); ok {
			if se, ok := c.Fun.(*ast.SelectorExpr); ok && se.Sel.Name == "Gosched" {
				if id, ok := se.X.(*ast.Ident); ok && id.Name == "runtime" {
					id.Name = "zzsim"
					in.used = true
					rep.Gosched = append(rep.Gosched, rel)
				}
			}
			if se, ok := c.Fun.(*ast.SelectorExpr); ok && se.Sel.Name == "SetFinalizer" && len(c.Args) == 2 {
				if id, ok := se.X.(*ast.Ident); ok && id.Name == "runtime" && id.Obj == nil {
					// the finalizer is queued by the runtime and executed as a
					// simulated task at the next forced GC
					id.Name = "zzsim"
					in.used = true
					rep.Finalizers = append(rep.Finalizers, fmt.Sprintf("%s:%d", rel, fset.Position(c.Pos()).Line))
					keepRuntime = true
				}
			}
		}
		return true
	})
	// go f(x) -> zzsim.Go(func(){ f(x) })
	ast.Inspect(f, func(n ast.Node) bool {
		var lists []*[]ast.Stmt
		switch x := n.(type) {
		case *ast.BlockStmt:
			lists = append(lists, &x.List)
		case *ast.CaseClause:
			lists = append(lists, &x.Body)
		case *ast.CommClause:
			lists = append(lists, &x.Body)
		}
		for _, l := range lists {
			for i, s := range *l {
				if g, ok := s.(*ast.GoStmt); ok {
					p := fset.Position(g.Pos())
					rep.GoStmts = append(rep.GoStmts, fmt.Sprintf("%s:%d", rel, p.Line))
					in.used = true
					// arguments are evaluated by the go statement itself, not by
					// the new goroutine
					var pre []ast.Stmt
					if len(g.Call.Args) > 0 {
						as := &ast.AssignStmt{Tok: token.DEFINE}
						for k, a := range g.Call.Args {
							nm := ast.NewIdent("zzarg" + strconv.Itoa(k))
							as.Lhs = append(as.Lhs, nm)
							as.Rhs = append(as.Rhs, a)
							g.Call.Args[k] = ast.NewIdent(nm.Name)
						}
						pre = append(pre, as)
					}
					call := &ast.ExprStmt{X: &ast.CallExpr{
						Fun: &ast.SelectorExpr{X: ast.NewIdent("zzsim"), Sel: ast.NewIdent("Go")},
						Args: []ast.Expr{&ast.FuncLit{
							Type: &ast.FuncType{Params: &ast.FieldList{}},
							Body: &ast.BlockStmt{List: []ast.Stmt{&ast.ExprStmt{X: g.Call}}},
						}},
					}}
					blk := &ast.BlockStmt{List: append(pre, call)}
					in.done[blk] = true
					(*l)[i] = blk
				}
			}
		}
		return true
	})

	if isCmd {
		rewriteCmd(fset, f, rel, in)
	}
	desugarChanRanges(fset, f, rel)

	in.walk(f)
	in.desugarSelects(f)
	if isCmd {
		fixUnusedImports(f)
	}

	// uses of DefaultBlockSize as an operand
	isDBS := func(e ast.Expr) bool {
		switch x := e.(type) {
		case *ast.Ident:
			return x.Name == "DefaultBlockSize"
		case *ast.SelectorExpr:
			return x.Sel.Name == "DefaultBlockSize"
		case *ast.ParenExpr:
			_ = x
		}
		return false
	}
	ast.Inspect(f, func(n ast.Node) bool {
		switch x := n.(type) {
		case *ast.BinaryExpr:
			if isDBS(x.X) || isDBS(x.Y) {
				rep.KnobEntangled = append(rep.KnobEntangled, fmt.Sprintf("%s:%d", rel, fset.Position(x.Pos()).Line))
			}
		case *ast.UnaryExpr:
			if isDBS(x.X) {
				rep.KnobEntangled = append(rep.KnobEntangled, fmt.Sprintf("%s:%d", rel, fset.Position(x.Pos()).Line))
			}
		case *ast.ArrayType:
			if x.Len != nil && isDBS(x.Len) {
				rep.KnobEntangled = append(rep.KnobEntangled, fmt.Sprintf("%s:%d", rel, fset.Position(x.Pos()).Line))
			}
		}
		return true
	})
	// NewPool(n int) in the pool files reports the size it was asked for
	if rel == "pkg/token/pool.go" || rel == "pkg/position/pool.go" {
		for _, d := range f.Decls {
			fd, ok := d.(*ast.FuncDecl)
			if !ok || fd.Recv != nil || fd.Name.Name != "NewPool" || fd.Body == nil || fd.Type.Params == nil || len(fd.Type.Params.List) == 0 {
				continue
			}
			p0 := fd.Type.Params.List[0]
			if id, ok := p0.Type.(*ast.Ident); !ok || id.Name != "int" || len(p0.Names) == 0 || p0.Names[0].Name == "_" {
				continue
			}
			fd.Body.List = append([]ast.Stmt{simCall("NoteBlockSize", ast.NewIdent(p0.Names[0].Name))}, fd.Body.List...)
			in.used = true
			rep.NewPoolNoted = append(rep.NewPoolNoted, rel)
		}
	}

	// knob
	if rel == "pkg/token/pool.go" || rel == "pkg/position/pool.go" {
		ok := false
		for _, d := range f.Decls {
			if gd, isGen := d.(*ast.GenDecl); isGen && gd.Tok == token.CONST {
				for _, sp := range gd.Specs {
					vs := sp.(*ast.ValueSpec)
					if !noKnob && len(gd.Specs) == 1 && len(vs.Names) == 1 && vs.Names[0].Name == "DefaultBlockSize" {
						gd.Tok = token.VAR
						ok = true
					}
				}
			}
		}
		if ok {
			rep.Knob[rel] = "var"
		} else {
			rep.Knob[rel] = "unavailable"
		}
	}

	if keepRuntime || len(rep.Gosched) > 0 && rep.Gosched[len(rep.Gosched)-1] == rel {
		// keep the "runtime" import used
		f.Decls = append(f.Decls, &ast.GenDecl{Tok: token.VAR, Specs: []ast.Spec{&ast.ValueSpec{
			Names:  []*ast.Ident{ast.NewIdent("_")},
			Values: []ast.Expr{&ast.SelectorExpr{X: ast.NewIdent("runtime"), Sel: ast.NewIdent("Compiler")}},
		}}})
	}
	if in.used {
		imp := &ast.GenDecl{Tok: token.IMPORT, Specs: []ast.Spec{&ast.ImportSpec{Name: ast.NewIdent("zzsim"), Path: &ast.BasicLit{Kind: token.STRING, Value: strconv.Quote(simPkg)}}}}
		f.Decls = append([]ast.Decl{imp}, f.Decls...)
	}
	var buf bytes.Buffer
	if err := format.Node(&buf, fset, f); err != nil {
		return err
	}
	rep.Files[rel] = len(rep.Sites)
	for i, line := range strings.Split(buf.String(), "\n") {
		if k := strings.Index(line, "zzsim.Y("); k >= 0 {
			if id, err := strconv.Atoi(strings.TrimSuffix(strings.TrimSpace(line[k+8:]), ")")); err == nil && id >= 1 && id <= len(rep.Sites) {
				rep.Sites[id-1].Out = i + 1
			}
		}
	}
	return os.WriteFile(path, buf.Bytes(), 0644)
}

func main() {
	root := flag.String("root", "", "scratch copy of the repository")
	out := flag.String("report", "", "write JSON report here")
	flag.BoolVar(&noKnob, "noknob", false, "leave DefaultBlockSize a constant")
	flag.BoolVar(&noTime, "notime", false, "leave the import \"time\" alone (no simulated clock)")
	gen := flag.String("gen", "", "write generated harness sources (recorder, knob, site classes) into this directory")
	flag.Parse()
	var files []string
	for _, sub := range []string{"pkg", "internal", "cmd"} {
		filepath.Walk(filepath.Join(*root, sub), func(path string, info os.FileInfo, err error) error {
			if err != nil {
				return nil
			}
			if info.IsDir() {
				if strings.HasPrefix(info.Name(), "zzsim") {
					return filepath.SkipDir
				}
				return nil
			}
			if strings.HasSuffix(path, ".go") && !strings.HasSuffix(path, "_test.go") {
				files = append(files, path)
			}
			return nil
		})
	}
	sort.Strings(files)
	for _, p := range files {
		rel, _ := filepath.Rel(*root, p)
		if err := processFile(*root, p, strings.HasPrefix(rel, "cmd/")); err != nil {
			fmt.Fprintln(os.Stderr, "instrument:", p, err)
			os.Exit(2)
		}
	}
	if *gen != "" {
		if err := generate(*root, *gen); err != nil {
			fmt.Fprintln(os.Stderr, "instrument: generate:", err)
			os.Exit(2)
		}
	}
	if *out != "" {
		b, _ := json.Marshal(rep)
		os.WriteFile(*out, b, 0644)
	}
	fmt.Printf("instrumented %d files, %d sites, sync:%d go:%d chan:%d knob:%v\n", len(files), len(rep.Sites), len(rep.SyncRewrite), len(rep.GoStmts), len(rep.ChanOps), rep.Knob)
}

// site classes used by the site-biased scheduler: name -> (file substring, func substring)
var siteClasses = [][3]string{
	{"pool", "/pool.go", "Get"},
	{"lexer-new", "internal/scanner/lexer.go", "NewLexer"},
	{"lexer-helpers", "internal/scanner/lexer.go", ""},
	{"newlines", "internal/scanner/newline.go", ""},
	{"scanner", "internal/scanner/scanner.go", ""},
	{"php7-actions", "internal/php7/php7.go", ""},
	{"php5-actions", "internal/php5/php5.go", ""},
	{"parser-glue", "/parser.go", ""},
	{"position-builder", "internal/position/position.go", ""},
	{"printer", "pkg/visitor/printer/printer.go", ""},
	{"dumper", "pkg/visitor/dumper/dumper.go", ""},
	{"resolver", "pkg/visitor/nsresolver/", ""},
	{"traverser", "pkg/visitor/traverser/", ""},
	{"version", "pkg/version/", ""},
	{"errors", "pkg/errors/", ""},
	{"cli", "cmd/php-parser/", ""},
}

func generate(root, dir string) error {
	// ---- recorder: one method per method of the working tree's ast.Visitor
	fset := token.NewFileSet()
	f, err := parser.ParseFile(fset, filepath.Join(root, "pkg/ast/ast.go"), nil, 0)
	if err != nil {
		return err
	}
	var b bytes.Buffer
	b.WriteString("// Code generated by verif-instrument from pkg/ast/ast.go. DO NOT EDIT.\n\npackage main\n\nimport \"github.com/z7zmey/php-parser/pkg/ast\"\n\n")
	found := false
	ast.Inspect(f, func(n ast.Node) bool {
		ts, ok := n.(*ast.TypeSpec)
		if !ok || ts.Name.Name != "Visitor" {
			return true
		}
		it, ok := ts.Type.(*ast.InterfaceType)
		if !ok {
			return true
		}
		found = true
		for _, m := range it.Methods.List {
			ft, ok := m.Type.(*ast.FuncType)
			if !ok || len(m.Names) != 1 || ft.Params == nil || len(ft.Params.List) != 1 {
				continue
			}
			star, ok := ft.Params.List[0].Type.(*ast.StarExpr)
			if !ok {
				continue
			}
			id, ok := star.X.(*ast.Ident)
			if !ok {
				continue
			}
			fmt.Fprintf(&b, "func (r *recorder) %s(n *ast.%s) { r.visit(%q, n) }\n", m.Names[0].Name, id.Name, m.Names[0].Name)
		}
		return false
	})
	if !found {
		return fmt.Errorf("ast.Visitor interface not found")
	}
	b.WriteString("\nvar _ ast.Visitor = (*recorder)(nil)\n")
	if err := os.WriteFile(filepath.Join(dir, "recorder_gen.go"), b.Bytes(), 0644); err != nil {
		return err
	}
	// ---- knob
	b.Reset()
	avail := rep.Knob["pkg/token/pool.go"] == "var" && rep.Knob["pkg/position/pool.go"] == "var"
	b.WriteString("// Code generated by verif-instrument. DO NOT EDIT.\n\npackage main\n\n")
	if avail {
		b.WriteString("import (\n\t\"github.com/z7zmey/php-parser/pkg/position\"\n\t\"github.com/z7zmey/php-parser/pkg/token\"\n)\n\n")
		b.WriteString("const knobAvailable = true\nconst knobState = \"var\"\n\nvar knobTok0, knobPos0 = token.DefaultBlockSize, position.DefaultBlockSize\n\n")
		b.WriteString("// applyKnob sets both DefaultBlockSize variables (0 restores the compiled-in values).\nfunc applyKnob(k int) {\n\tif k <= 0 {\n\t\ttoken.DefaultBlockSize, position.DefaultBlockSize = knobTok0, knobPos0\n\t\treturn\n\t}\n\ttoken.DefaultBlockSize, position.DefaultBlockSize = k, k\n}\n")
	} else {
		b.WriteString("const knobAvailable = false\nconst knobState = \"unavailable\"\n\nfunc applyKnob(k int) {}\n")
	}
	if err := os.WriteFile(filepath.Join(dir, "knob_gen.go"), b.Bytes(), 0644); err != nil {
		return err
	}
	// ---- site classes
	b.Reset()
	b.WriteString("// Code generated by verif-instrument. DO NOT EDIT.\n\npackage main\n\nimport \"github.com/z7zmey/php-parser/pkg/zzsim\"\n\nvar siteClassRanges = map[string][][2]int{\n")
	for _, c := range append(siteClasses, [3]string{"sync", "", ""}) {
		var ranges [][2]int
		for _, s := range rep.Sites {
			if c[0] == "sync" && !s.Sync {
				continue
			}
			if strings.Contains("/"+s.File, c[1]) && strings.Contains(s.Func, c[2]) {
				if n := len(ranges); n > 0 && ranges[n-1][1] == s.ID-1 {
					ranges[n-1][1] = s.ID
				} else {
					ranges = append(ranges, [2]int{s.ID, s.ID})
				}
			}
		}
		fmt.Fprintf(&b, "\t%q: {", c[0])
		for _, r := range ranges {
			fmt.Fprintf(&b, "{%d, %d}, ", r[0], r[1])
		}
		b.WriteString("},\n")
	}
	b.WriteString("}\n\n// markSites marks the sites of one class for the site-biased scheduler.\nfunc markSites(class string) {\n\tfor i := range zzsim.SiteMark {\n\t\tzzsim.SiteMark[i] = 0\n\t}\n\tfor _, r := range siteClassRanges[class] {\n\t\tfor i := r[0]; i <= r[1] && i < zzsim.MaxSites; i++ {\n\t\t\tzzsim.SiteMark[i] = 1\n\t\t}\n\t}\n\tif class == \"sync\" {\n\t\tzzsim.SiteMark[zzsim.SiteSyncRel], zzsim.SiteMark[zzsim.SiteSyncAcq] = 1, 1\n\t}\n}\n")
	fmt.Fprintf(&b, "\nconst totalSites = %d\n\n// the tree registers finalizers: automatic GC is switched off, forced GCs place them\nconst usesFinalizers = %v\n\n// the tree waits on the clock (Sleep, timers, tickers): the simulated clock's spawner is started\nconst usesClock = %v\n", len(rep.Sites), len(rep.Finalizers) > 0, rep.ClockWaits > 0)
	return os.WriteFile(filepath.Join(dir, "sites_gen.go"), b.Bytes(), 0644)
}

// ---- cmd/php-parser: whole-program scenario support (DESIGN.md 4.1 C)

// what replaces process-global facilities: import path -> selector -> name in zzsimos
var cmdRedirect = map[string]map[string]string{
	"os":        {"Exit": "Exit", "Stdout": "Stdout", "Stderr": "Stderr", "Args": "Args", "WriteFile": "WriteFile", "ReadFile": "ReadFile"},
	"io/ioutil": {"WriteFile": "WriteFile", "ReadFile": "ReadFile"},
	"fmt":       {"Print": "Print", "Println": "Println", "Printf": "Printf"},
	"log":       {"Fatal": "Fatal", "Fatalf": "Fatalf", "Fatalln": "Fatalln", "Print": "LogPrint", "Printf": "LogPrintf", "Println": "LogPrintln", "Panic": "Panic", "Panicf": "Panicf"},
	"runtime":   {"GOMAXPROCS": "GOMAXPROCS", "NumCPU": "NumCPU"},
}

func importName(im *ast.ImportSpec) string {
	if im.Name != nil {
		return im.Name.Name
	}
	p, _ := strconv.Unquote(im.Path.Value)
	if k := strings.LastIndex(p, "/"); k >= 0 {
		p = p[k+1:]
	}
	return p
}

func rewriteCmd(fset *token.FileSet, f *ast.File, rel string, in *inst) {
	if f.Name.Name == "main" {
		f.Name.Name = "zzcli"
	}
	for _, d := range f.Decls {
		if fd, ok := d.(*ast.FuncDecl); ok && fd.Recv == nil && fd.Name.Name == "main" {
			fd.Name.Name = "ZZMain"
			rep.CLIMain = true
		}
	}
	local := map[string]string{} // local import name -> std import path
	for _, im := range f.Imports {
		p, _ := strconv.Unquote(im.Path.Value)
		if p == "flag" {
			im.Path.Value = strconv.Quote(flagPkg)
			if im.Name == nil {
				im.Name = ast.NewIdent("flag")
			}
			rep.CLI = append(rep.CLI, rel+":flag")
			continue
		}
		if _, ok := cmdRedirect[p]; ok {
			local[importName(im)] = p
		}
	}
	usedOS := false
	ast.Inspect(f, func(n ast.Node) bool {
		se, ok := n.(*ast.SelectorExpr)
		if !ok {
			return true
		}
		id, ok := se.X.(*ast.Ident)
		if !ok || id.Obj != nil {
			return true
		}
		if to, ok := cmdRedirect[local[id.Name]][se.Sel.Name]; ok {
			rep.CLI = append(rep.CLI, fmt.Sprintf("%s:%d %s.%s", rel, fset.Position(se.Pos()).Line, id.Name, se.Sel.Name))
			id.Name, se.Sel.Name = "zzsimos", to
			usedOS = true
		}
		return true
	})
	// The program's package-level variables live as long as the process, and a
	// real invocation starts with fresh ones. The simulator runs the program many
	// times in one process (the whole tree, then every file alone), so each file
	// of the program registers a function that gives its package-level variables
	// their initial values again (initialisers re-evaluated in source order, init
	// functions re-run); the harness calls it before every invocation.
	var resets []ast.Stmt
	nInit := 0
	for _, d := range f.Decls {
		switch x := d.(type) {
		case *ast.GenDecl:
			if x.Tok != token.VAR {
				continue
			}
			for _, sp := range x.Specs {
				vs := sp.(*ast.ValueSpec)
				var lhs []ast.Expr
				named := false
				for _, nm := range vs.Names {
					lhs = append(lhs, ast.NewIdent(nm.Name))
					named = named || nm.Name != "_"
				}
				if !named {
					continue
				}
				if len(vs.Values) > 0 {
					resets = append(resets, &ast.AssignStmt{Lhs: lhs, Tok: token.ASSIGN, Rhs: vs.Values})
					continue
				}
				if vs.Type == nil {
					continue
				}
				for _, nm := range vs.Names {
					if nm.Name == "_" {
						continue
					}
					zero := &ast.StarExpr{X: &ast.CallExpr{Fun: ast.NewIdent("new"), Args: []ast.Expr{vs.Type}}}
					resets = append(resets, &ast.AssignStmt{Lhs: []ast.Expr{ast.NewIdent(nm.Name)}, Tok: token.ASSIGN, Rhs: []ast.Expr{zero}})
				}
			}
		case *ast.FuncDecl:
			if x.Recv == nil && x.Name.Name == "init" && x.Type.Params.NumFields() == 0 {
				nInit++
				x.Name.Name = "zzinit" + strconv.Itoa(nInit) + "_" + sanitize(rel)
				resets = append(resets, &ast.ExprStmt{X: &ast.CallExpr{Fun: ast.NewIdent(x.Name.Name)}})
			}
		}
	}
	if len(resets) > 0 {
		usedOS = true
		name := "zzreset_" + sanitize(rel)
		f.Decls = append(f.Decls, &ast.FuncDecl{Name: ast.NewIdent(name), Type: &ast.FuncType{Params: &ast.FieldList{}}, Body: &ast.BlockStmt{List: resets}})
		var initBody []ast.Stmt
		for i := 1; i <= nInit; i++ {
			initBody = append(initBody, &ast.ExprStmt{X: &ast.CallExpr{Fun: ast.NewIdent("zzinit" + strconv.Itoa(i) + "_" + sanitize(rel))}})
		}
		initBody = append(initBody, &ast.ExprStmt{X: &ast.CallExpr{Fun: &ast.SelectorExpr{X: ast.NewIdent("zzsimos"), Sel: ast.NewIdent("RegisterReset")}, Args: []ast.Expr{ast.NewIdent(name)}}})
		f.Decls = append(f.Decls, &ast.FuncDecl{Name: ast.NewIdent("init"), Type: &ast.FuncType{Params: &ast.FieldList{}}, Body: &ast.BlockStmt{List: initBody}})
		rep.CLI = append(rep.CLI, fmt.Sprintf("%s: %d package-level variables / init functions reset before every invocation", rel, len(resets)))
	}
	if usedOS {
		imp := &ast.GenDecl{Tok: token.IMPORT, Specs: []ast.Spec{&ast.ImportSpec{Name: ast.NewIdent("zzsimos"), Path: &ast.BasicLit{Kind: token.STRING, Value: strconv.Quote(osPkg)}}}}
		f.Decls = append([]ast.Decl{imp}, f.Decls...)
	}
}

func sanitize(rel string) string {
	b := []byte(rel)
	for i, c := range b {
		if !(c >= 'a' && c <= 'z' || c >= 'A' && c <= 'Z' || c >= '0' && c <= '9') {
			b[i] = '_'
		}
	}
	return string(b)
}

// fixUnusedImports blanks imports that the redirection left without a use.
func fixUnusedImports(f *ast.File) {
	used := map[string]bool{}
	ast.Inspect(f, func(n ast.Node) bool {
		if se, ok := n.(*ast.SelectorExpr); ok {
			if id, ok := se.X.(*ast.Ident); ok && id.Obj == nil {
				used[id.Name] = true
			}
		}
		return true
	})
	for _, d := range f.Decls {
		gd, ok := d.(*ast.GenDecl)
		if !ok || gd.Tok != token.IMPORT {
			continue
		}
		for _, sp := range gd.Specs {
			im := sp.(*ast.ImportSpec)
			if n := importName(im); n != "_" && n != "." && !used[n] {
				im.Name = ast.NewIdent("_")
			}
		}
	}
}

type stubImporter struct{}

// package time is type-checked from its source (once), so that the channels of
// timers and tickers are known to be channels (`for range ticker.C`); every
// other import is an empty stub.
var (
	realTimeOnce sync.Once
	realTime     *types.Package
)

func (stubImporter) Import(path string) (*types.Package, error) {
	if path == "time" || path == timePkg {
		realTimeOnce.Do(func() {
			defer func() { recover() }()
			if p, err := importer.ForCompiler(token.NewFileSet(), "source", nil).Import("time"); err == nil {
				realTime = p
			}
		})
		if realTime != nil {
			return realTime, nil
		}
	}
	name := path
	if k := strings.LastIndex(name, "/"); k >= 0 {
		name = name[k+1:]
	}
	p := types.NewPackage(path, name)
	p.MarkComplete()
	return p, nil
}

// desugarChanRanges rewrites `for x := range ch { body }` over a channel into
// `for { x, ok := <-ch; if !ok { break }; body }` so that the receive becomes a
// statement-level channel operation the simulator can wait for. Whether the
// range expression is a channel is found by a best-effort type check of the
// file alone (imports are stubbed, errors ignored): channels declared in the
// file itself - parameters, locals, package variables - are recognised.
func desugarChanRanges(fset *token.FileSet, f *ast.File, rel string) {
	hasChan := false
	for _, im := range f.Imports {
		if im.Path.Value == `"time"` || im.Path.Value == strconv.Quote(timePkg) {
			hasChan = true // timers and tickers carry channels
		}
	}
	ast.Inspect(f, func(n ast.Node) bool {
		if _, ok := n.(*ast.ChanType); ok {
			hasChan = true
		}
		return !hasChan
	})
	if !hasChan {
		return
	}
	info := &types.Info{Types: map[ast.Expr]types.TypeAndValue{}}
	conf := types.Config{Importer: stubImporter{}, Error: func(error) {}, DisableUnusedImportCheck: true}
	func() {
		defer func() { recover() }()
		conf.Check(f.Name.Name, fset, []*ast.File{f}, info)
	}()
	isChanRange := func(s ast.Stmt) *ast.RangeStmt {
		r, ok := s.(*ast.RangeStmt)
		if !ok {
			return nil
		}
		tv, ok := info.Types[r.X]
		if !ok || tv.Type == nil {
			return nil
		}
		if _, ok := tv.Type.Underlying().(*types.Chan); !ok {
			return nil
		}
		return r
	}
	n := 0
	conv := func(r *ast.RangeStmt) ast.Stmt {
		n++
		okName := ast.NewIdent("zzok" + strconv.Itoa(n))
		recv := &ast.UnaryExpr{Op: token.ARROW, X: r.X}
		var pre []ast.Stmt
		var lhs ast.Expr = ast.NewIdent("_")
		tok := token.DEFINE
		if r.Key != nil {
			lhs = r.Key
			if r.Tok == token.ASSIGN {
				tok = token.ASSIGN
				pre = append(pre, &ast.DeclStmt{Decl: &ast.GenDecl{Tok: token.VAR, Specs: []ast.Spec{&ast.ValueSpec{Names: []*ast.Ident{okName}, Type: ast.NewIdent("bool")}}}})
			}
		}
		pre = append(pre, &ast.AssignStmt{Lhs: []ast.Expr{lhs, okName}, Tok: tok, Rhs: []ast.Expr{recv}})
		pre = append(pre, &ast.IfStmt{Cond: &ast.UnaryExpr{Op: token.NOT, X: okName}, Body: &ast.BlockStmt{List: []ast.Stmt{&ast.BranchStmt{Tok: token.BREAK}}}})
		rep.ChanWrapped = append(rep.ChanWrapped, fmt.Sprintf("%s:%d(range)", rel, fset.Position(r.Pos()).Line))
		return &ast.ForStmt{For: r.For, Body: &ast.BlockStmt{Lbrace: r.Body.Lbrace, List: append(pre, r.Body.List...), Rbrace: r.Body.Rbrace}}
	}
	ast.Inspect(f, func(nd ast.Node) bool {
		var lists []*[]ast.Stmt
		switch x := nd.(type) {
		case *ast.BlockStmt:
			lists = append(lists, &x.List)
		case *ast.CaseClause:
			lists = append(lists, &x.Body)
		case *ast.CommClause:
			lists = append(lists, &x.Body)
		case *ast.LabeledStmt:
			if r := isChanRange(x.Stmt); r != nil {
				x.Stmt = conv(r)
			}
		}
		for _, l := range lists {
			for i, s := range *l {
				if r := isChanRange(s); r != nil {
					(*l)[i] = conv(r)
				}
			}
		}
		return true
	})
}
