package main

import (
	"bytes"
	"encoding/json"
	"fmt"
	"os"
	"path/filepath"
	"strings"

	"verif/scn"
)

var maxCandidates = 300

type minimiser struct {
	b     *build
	dir   string
	sig   string
	tried int
	last  scn.Violation
	flaky bool // the violation needed several executions of the same scenario to show again
}

const flakyTries = 8

func clone(s *scn.Scenario) *scn.Scenario {
	raw, _ := json.Marshal(s)
	var c scn.Scenario
	json.Unmarshal(raw, &c)
	return &c
}

// fails runs a candidate in a fresh process and reports whether the SAME
// violation signature shows; on success the recorded tapes are returned.
func (m *minimiser) fails(s *scn.Scenario) (bool, *scn.Result) {
	if m.tried >= maxCandidates {
		return false, nil
	}
	m.tried++
	r := m.b.execRun(m.dir, 0, s, execOpts{tape: true})
	if r.infra != "" || r.res == nil {
		return false, nil
	}
	for _, v := range r.res.Violations {
		if sigFamily(v.Sig) == sigFamily(m.sig) {
			m.last = v
			return true, r.res
		}
	}
	return false, r.res
}

// sigFamily: the same observation can go wrong against the in-process reference
// ("op-resolve"), against the fresh-process reference ("isolated:op-resolve") or
// against the reverse-order pass ("order:op-resolve"); which of them notices
// first may differ between executions when the code under test is
// nondeterministic by itself. They count as the same violation.
func sigFamily(sig string) string {
	for _, p := range []string{"isolated:", "order:"} {
		sig = strings.TrimPrefix(sig, p)
	}
	return sig
}

// usedInputs drops inputs no pipeline refers to and renumbers.
func compactInputs(s *scn.Scenario) {
	if s.Prop == "C13" || len(s.Tasks) == 0 {
		return
	}
	used := map[int]int{}
	var ins []scn.Input
	for t := range s.Tasks {
		for p := range s.Tasks[t].Pipelines {
			pl := &s.Tasks[t].Pipelines[p]
			if _, ok := used[pl.Input]; !ok {
				used[pl.Input] = len(ins)
				ins = append(ins, s.Inputs[pl.Input])
			}
			pl.Input = used[pl.Input]
		}
	}
	s.Inputs = ins
}

// fixCLIPaths keeps only the path arguments that still contain a file.
func fixCLIPaths(s *scn.Scenario) {
	if len(s.CLIPaths) == 0 {
		return
	}
	var keep []string
	for _, p := range s.CLIPaths {
		for _, in := range s.Inputs {
			if strings.HasPrefix(in.Path, p+"/") {
				keep = append(keep, p)
				break
			}
		}
	}
	s.CLIPaths = keep
}

// freeSchedule turns a candidate whose structure changed back into a generated
// schedule (the tape no longer lines up); a replayed tape is tried first.
func withSchedules(s *scn.Scenario, orig scn.Sched) []*scn.Scenario {
	a := clone(s) // tape as it is (replay is tolerant: exhausted tape = run to completion)
	b := clone(s) // the original generating schedule
	b.Sched = orig
	b.Sched.Replay, b.Sched.Tape = false, nil
	b.Faults.Replay, b.Faults.Tape = false, nil
	c := clone(s) // simplest: run to completion
	c.Sched = scn.Sched{Mode: 0, Seed: 1}
	c.Faults.Replay, c.Faults.Tape = false, nil
	if s.Sched.Replay {
		return []*scn.Scenario{c, a, b}
	}
	return []*scn.Scenario{c, b}
}

func (m *minimiser) minimise(s0 *scn.Scenario) *scn.Scenario {
	orig := s0.Sched
	cur := clone(s0)
	// 0. exact tapes of the failing run
	ok, res := m.fails(cur)
	for k := 1; !ok && k < flakyTries; k++ {
		// The run from its seed did not show the violation again. The simulator
		// decides every schedule and fault, so the code under test must draw on
		// something outside it (map iteration order, addresses, a real clock): such
		// a violation shows with some probability only. It is still a violation:
		// try a few more times, and do not minimise (every candidate would be a
		// coin toss).
		ok, res = m.fails(cur)
		if ok {
			m.flaky = true
		}
	}
	if ok && m.flaky {
		return cur
	}
	if ok && res != nil {
		t := clone(cur)
		t.Sched.Replay, t.Sched.Tape = true, res.Tape
		t.Faults.Replay, t.Faults.Tape = true, res.FaultTape
		if ok2, _ := m.fails(t); ok2 {
			cur = t
		}
	} else {
		return nil // does not even reproduce from its seed
	}
	try := func(c *scn.Scenario) bool {
		compactInputs(c)
		for _, v := range withSchedules(c, orig) {
			if ok, res := m.fails(v); ok {
				if !v.Sched.Replay && res != nil && v.Sched.Mode != 0 {
					v.Sched.Replay, v.Sched.Tape = true, res.Tape
					v.Faults.Replay, v.Faults.Tape = true, res.FaultTape
				}
				cur = v
				return true
			}
		}
		return false
	}
	// 1. simplest schedule, no faults, default knob
	if c := clone(cur); true {
		c.Sched = scn.Sched{Mode: 0, Seed: 1}
		c.Faults = scn.Faults{Seed: 1}
		if ok, _ := m.fails(c); ok {
			cur = c
		}
	}
	if len(cur.Faults.GCSteps) > 0 {
		c := clone(cur)
		c.Faults.GCSteps = nil
		if ok, _ := m.fails(c); ok {
			cur = c
		}
	}
	if len(cur.Faults.Stalls) > 0 {
		c := clone(cur)
		c.Faults.Stalls = nil
		if ok, _ := m.fails(c); ok {
			cur = c
		}
	}
	if cur.Knob != 0 && cur.Kind != "parse" {
		c := clone(cur)
		c.Knob = 0
		if ok, _ := m.fails(c); ok {
			cur = c
		}
	}
	// 2. structure: drop tasks, pipelines, operations
	for changed := true; changed && m.tried < maxCandidates; {
		changed = false
		for t := len(cur.Tasks) - 1; t >= 0 && len(cur.Tasks) > 1; t-- {
			c := clone(cur)
			c.Tasks = append(c.Tasks[:t], c.Tasks[t+1:]...)
			if try(c) {
				changed = true
			}
		}
		for t := len(cur.Tasks) - 1; t >= 0; t-- {
			for p := len(cur.Tasks[t].Pipelines) - 1; p >= 0 && t < len(cur.Tasks); p-- {
				if len(cur.Tasks[t].Pipelines) <= 1 || p >= len(cur.Tasks[t].Pipelines) {
					continue
				}
				c := clone(cur)
				c.Tasks[t].Pipelines = append(c.Tasks[t].Pipelines[:p], c.Tasks[t].Pipelines[p+1:]...)
				if try(c) {
					changed = true
				}
			}
		}
		for t := range cur.Tasks {
			for p := range cur.Tasks[t].Pipelines {
				for o := len(cur.Tasks[t].Pipelines[p].Ops) - 1; o >= 0; o-- {
					if o >= len(cur.Tasks[t].Pipelines[p].Ops) {
						continue
					}
					c := clone(cur)
					ops := c.Tasks[t].Pipelines[p].Ops
					c.Tasks[t].Pipelines[p].Ops = append(ops[:o], ops[o+1:]...)
					if try(c) {
						changed = true
					}
				}
			}
		}
		for o := len(cur.History) - 1; o >= 0 && len(cur.History) > 1; o-- {
			if o >= len(cur.History) {
				continue
			}
			c := clone(cur)
			c.History = append(c.History[:o], c.History[o+1:]...)
			if try(c) {
				changed = true
			}
		}
		for o := range cur.History {
			if cur.History[o].Fault != nil {
				c := clone(cur)
				c.History[o].Fault = nil
				if try(c) {
					changed = true
				}
			}
		}
		for t := len(cur.PoolTasks) - 1; t >= 0 && len(cur.PoolTasks) > 1; t-- {
			c := clone(cur)
			c.PoolTasks = append(c.PoolTasks[:t], c.PoolTasks[t+1:]...)
			if try(c) {
				changed = true
			}
		}
		for t := range cur.PoolTasks {
			for o := len(cur.PoolTasks[t].Ops) - 1; o >= 0; o-- {
				if o >= len(cur.PoolTasks[t].Ops) {
					continue
				}
				c := clone(cur)
				ops := c.PoolTasks[t].Ops
				c.PoolTasks[t].Ops = append(ops[:o], ops[o+1:]...)
				if try(c) {
					changed = true
					continue
				}
				if op := cur.PoolTasks[t].Ops[o]; (op.Kind == "get" || op.Kind == "rr") && op.N > 1 {
					for _, n := range []int{1, op.N / 2, op.N - 1} {
						if n < 1 || n >= op.N {
							continue
						}
						c := clone(cur)
						c.PoolTasks[t].Ops[o].N = n
						if try(c) {
							changed = true
							break
						}
					}
				}
			}
		}
		if cur.Kind == "C" {
			for i := len(cur.Inputs) - 1; i >= 0 && len(cur.Inputs) > 1; i-- {
				if i >= len(cur.Inputs) {
					continue
				}
				c := clone(cur)
				c.Inputs = append(c.Inputs[:i], c.Inputs[i+1:]...)
				fixCLIPaths(c)
				if try(c) {
					changed = true
				}
			}
			for i := len(cur.CLIFlags) - 1; i >= 0; i-- {
				if i >= len(cur.CLIFlags) || (i > 0 && cur.CLIFlags[i-1] == "-phpver") {
					continue
				}
				c := clone(cur)
				if c.CLIFlags[i] == "-phpver" {
					c.CLIFlags = append(c.CLIFlags[:i], c.CLIFlags[i+2:]...)
				} else {
					c.CLIFlags = append(c.CLIFlags[:i], c.CLIFlags[i+1:]...)
				}
				if try(c) {
					changed = true
				}
			}
		}
		if (cur.Kind == "B" || cur.Kind == "C") && cur.Workers > 1 {
			c := clone(cur)
			c.Workers--
			if try(c) {
				changed = true
			}
		}
	}
	// 3. inputs: keep halves / drop line ranges while the violation persists
	for i := range cur.Inputs {
		for chunk := 0; m.tried < maxCandidates; {
			lines := bytes.SplitAfter(cur.Inputs[i].Src, []byte("\n"))
			if len(lines) <= 1 {
				break
			}
			n := len(lines) / 2
			if chunk > 0 {
				n = chunk
			}
			shrunk := false
			for at := 0; at < len(lines) && m.tried < maxCandidates; at += n {
				end := at + n
				if end > len(lines) {
					end = len(lines)
				}
				c := clone(cur)
				c.Inputs[i].Src = bytes.Join(append(append([][]byte{}, lines[:at]...), lines[end:]...), nil)
				if len(c.Inputs[i].Src) == 0 {
					continue
				}
				if try(c) {
					shrunk = true
					break
				}
			}
			if !shrunk {
				if n <= 1 {
					break
				}
				chunk = n / 2
			} else {
				chunk = 0
			}
		}
	}
	// 4. the schedule tape: shortest failing prefix, then neutralise switches
	if cur.Sched.Replay && len(cur.Sched.Tape) > 0 {
		lo, hi := 0, len(cur.Sched.Tape) // invariant: prefix of length hi fails
		for lo < hi && m.tried < maxCandidates {
			mid := (lo + hi) / 2
			c := clone(cur)
			c.Sched.Tape = c.Sched.Tape[:mid]
			if ok, _ := m.fails(c); ok {
				hi = mid
			} else {
				lo = mid + 1
			}
		}
		cur.Sched.Tape = cur.Sched.Tape[:hi]
		for i := len(cur.Sched.Tape) - 1; i >= 0 && m.tried < maxCandidates; i-- {
			if cur.Sched.Tape[i][1] == 0 {
				continue
			}
			c := clone(cur)
			c.Sched.Tape[i][1] = 0
			if ok, _ := m.fails(c); ok {
				cur = c
			}
		}
	}
	return cur
}

// decodeTrace renders the switches of a run for the replay file.
func (b *build) decodeTrace(dir string, s *scn.Scenario) []string {
	ev := filepath.Join(dir, "events.txt")
	r := b.execRun(dir, 1, s, execOpts{events: ev})
	if r.res == nil {
		return nil
	}
	raw, err := os.ReadFile(ev)
	if err != nil {
		return nil
	}
	kinds := []string{"preempted", "finished", "blocked", "start", "yielded (Gosched)", "select", "?", "?"}
	var out []string
	lines := strings.Split(strings.TrimSpace(string(raw)), "\n")
	for _, l := range lines {
		var st, site, from, to, kind int
		if n, _ := fmt.Sscanf(l, "%d %d %d %d %d", &st, &site, &from, &to, &kind); n != 5 {
			continue
		}
		if from == to && kind != 5 {
			continue
		}
		if len(out) >= 200 {
			out = append(out, fmt.Sprintf("… (%d decisions in all)", len(lines)))
			break
		}
		if kind == 5 {
			out = append(out, fmt.Sprintf("step %d: task %d in a select with several ready cases: the simulator chooses ready case #%d", st, from, to))
			continue
		}
		out = append(out, fmt.Sprintf("step %d: task %d %s at %s -> task %d runs", st, from, kinds[kind&7], b.siteInfo(site), to))
	}
	for _, st := range s.Faults.Stalls {
		out = append(out, fmt.Sprintf("fault: task %d stalled (passed over while anybody else can run) from step %d to step %d", st[0], st[1], st[2]))
	}
	for _, g := range s.Faults.GCSteps {
		out = append(out, fmt.Sprintf("fault: forced GC at step %d", g))
	}
	return out
}

// reportViolation minimises a violating run, writes the replay file and checks
// that replaying the file in a fresh process reproduces the same signature.
func reportViolation(b *build, prop string, v violRun) (string, bool) {
	dir := filepath.Join(b.scratch, "min")
	os.MkdirAll(dir, 0755)
	m := &minimiser{b: b, dir: dir, sig: v.v.Sig, last: v.v}
	min := m.minimise(v.scn)
	minimised := true
	if min == nil {
		// the seed itself did not reproduce in a fresh process: nothing to report
		return "", false
	}
	// final confirmation in a fresh process
	used := m.tried
	m.tried = 0
	if m.flaky {
		minimised = false
		ok := false
		for k := 0; !ok && k < flakyTries; k++ {
			ok, _ = m.fails(min)
		}
		if !ok {
			return "", false
		}
	} else if ok, _ := m.fails(min); !ok {
		// the minimised candidate does not fail again: back to the run as it was;
		// if that one fails only now and then, the violation is a flaky one
		min, minimised = v.scn, false
		ok := false
		for k := 0; !ok && k < flakyTries; k++ {
			ok, _ = m.fails(min)
			m.flaky = m.flaky || (ok && k > 0)
		}
		if !ok {
			return "", false
		}
	}
	rp := scn.Replay{Property: prop, Signature: v.v.Sig, Oracle: m.last.Oracle, Detail: m.last.Detail, RepoHead: b.head, RepoDiff: b.diff,
		Minimised: minimised, Scenario: min, Steps: b.decodeTrace(dir, min), Flaky: m.flaky}
	if m.flaky {
		rp.Detail += " [this violation does not show in every execution of the same scenario although the simulator fixes every schedule and fault decision: the code under test draws on nondeterminism outside the simulator's control (map iteration order, addresses, a real clock); the replay command executes the file up to " + fmt.Sprint(2*flakyTries) + " times]"
	}
	vd := verifDir()
	out := os.Getenv("VERIF_REPLAY_DIR")
	if out == "" {
		out = filepath.Join(vd, "replays")
	}
	os.MkdirAll(out, 0755)
	path := filepath.Join(out, fmt.Sprintf("%s-%d.json", prop, v.scn.RunSeed))
	raw, _ := json.MarshalIndent(rp, "", " ")
	if err := os.WriteFile(path, raw, 0644); err != nil {
		return "", false
	}
	fmt.Printf("violation in run %d (seed %d): %s %s\n%s\nminimised with %d candidate runs: %d tasks, %d inputs (%d bytes), %d schedule decisions\n",
		v.idx, v.scn.RunSeed, m.last.Oracle, m.last.Sig, m.last.Detail, used, len(min.Tasks)+len(min.PoolTasks), len(min.Inputs), totalBytes(min), len(min.Sched.Tape))
	return path, true
}

func totalBytes(s *scn.Scenario) int {
	n := 0
	for _, in := range s.Inputs {
		n += len(in.Src)
	}
	return n
}
