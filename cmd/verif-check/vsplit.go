package main

import (
	"encoding/json"
	"fmt"
	"os"
	"path/filepath"
	"sort"
	"sync"

	"verif/scn"
)

// vsplit: workload material, computed once and committed (corpus/vsplit.json).
// For every corpus file up to 8 kB the parse result (errors, tree, full dump)
// under each PHP version is hashed - inside the simulator, so that the known
// endless loops of the tree end at their step budget - and files whose result
// depends on the version are listed with their classes of equivalent
// versions. The generator uses the list for "version split" runs: the same
// bytes parsed concurrently under versions the tree treats differently, which
// is where state keyed too loosely by version shows. The list is only a hint:
// if the tree under test behaves differently the runs are merely less pointed.
var vsplitVersions = []string{"5.0", "5.6", "7.0", "7.2", "7.3", "7.4"}

type vsplitEntry struct {
	File    string     `json:"file"`
	Classes [][]string `json:"classes"` // versions with identical results, two classes or more
}

func vsplitCmd(par int) int {
	b, err := buildSimnode("vsplit")
	defer b.cleanup()
	if err != nil {
		fmt.Println(err)
		return 2
	}
	vd := verifDir()
	corp, err := loadCorpus(filepath.Join(vd, "corpus"))
	if err != nil {
		fmt.Println(err)
		return 2
	}
	dir := filepath.Join(b.scratch, "vsplit")
	os.MkdirAll(dir, 0755)
	var files []corpusFile
	for _, f := range corp.all {
		if len(f.src) <= 8192 && len(f.src) > 0 {
			files = append(files, f)
		}
	}
	out := make([]*vsplitEntry, len(files))
	var wg sync.WaitGroup
	sem := make(chan struct{}, par)
	for i := range files {
		i := i
		wg.Add(1)
		sem <- struct{}{}
		go func() {
			defer wg.Done()
			defer func() { <-sem }()
			f := files[i]
			s := &scn.Scenario{Prop: "C11", Kind: "A", RunSeed: uint64(i), Light: false}
			var task scn.Task
			for vi, v := range vsplitVersions {
				s.Inputs = append(s.Inputs, scn.Input{Name: f.name, Src: append([]byte(nil), f.src...), Version: v, Callback: true})
				task.Pipelines = append(task.Pipelines, scn.Pipeline{Input: vi})
			}
			s.Tasks = []scn.Task{task}
			r := b.execRun(dir, i, s, execOpts{noIso: true})
			if r.res == nil || len(r.res.PipeHashes) != len(vsplitVersions) {
				return
			}
			groups := map[string][]string{}
			for vi, h := range r.res.PipeHashes {
				if h == "" {
					return
				}
				groups[h] = append(groups[h], vsplitVersions[vi])
			}
			if len(groups) < 2 {
				return
			}
			e := &vsplitEntry{File: f.name}
			for _, g := range groups {
				e.Classes = append(e.Classes, g)
			}
			sort.Slice(e.Classes, func(a, b int) bool { return e.Classes[a][0] < e.Classes[b][0] })
			out[i] = e
		}()
	}
	wg.Wait()
	var list []*vsplitEntry
	for _, e := range out {
		if e != nil {
			list = append(list, e)
		}
	}
	raw, _ := json.MarshalIndent(list, "", " ")
	if err := os.WriteFile(filepath.Join(vd, "corpus", "vsplit.json"), raw, 0644); err != nil {
		fmt.Println(err)
		return 2
	}
	fmt.Printf("%d of %d corpus files parse differently under different versions; written to corpus/vsplit.json\n", len(list), len(files))
	return 0
}
