package main

import (
	"encoding/json"
	"fmt"
	"os"
	"path/filepath"
	"sort"
	"sync"

	"verif/scn"
)

// vsplit: workload material, computed once and committed (corpus/vsplit.json).
// For every corpus file up to 8 kB the parse result (errors, tree, full dump)
// under each PHP version is hashed - inside the simulator, so that the known
// endless loops of the tree end at their step budget - and files whose result
// depends on the version are listed with their classes of equivalent
// versions. The generator uses the list for "version split" runs: the same
// bytes parsed concurrently under versions the tree treats differently, which
// is where state keyed too loosely by version shows. The list is only a hint:
// if the tree under test behaves differently the runs are merely less pointed.
var vsplitVersions = []string{"5.0", "5.6", "7.0", "7.2", "7.3", "7.4"}

type vsplitEntry struct {
	File    string     `json:"file"`
	Classes [][]string `json:"classes"` // versions with identical results, two classes or more
}

func vsplitCmd(par int) int {
	b, err := buildSimnode("vsplit")
	defer b.cleanup()
	if err != nil {
		fmt.Println(err)
		return 2
	}
	vd := verifDir()
	corp, err := loadCorpus(filepath.Join(vd, "corpus"))
	if err != nil {
		fmt.Println(err)
		return 2
	}
	dir := filepath.Join(b.scratch, "vsplit")
	os.MkdirAll(dir, 0755)
	var files []corpusFile
	for _, f := range corp.all {
		if len(f.src) <= 8192 && len(f.src) > 0 {
			files = append(files, f)
		}
	}
	out := make([]*vsplitEntry, len(files))
	var wg sync.WaitGroup
	sem := make(chan struct{}, par)
	for i := range files {
		i := i
		wg.Add(1)
		sem <- struct{}{}
		go func() {
			defer wg.Done()
			defer func() { <-sem }()
			f := files[i]
			s := &scn.Scenario{Prop: "C11", Kind: "A", RunSeed: uint64(i), Light: false}
			var task scn.Task
			for vi, v := range vsplitVersions {
				s.Inputs = append(s.Inputs, scn.Input{Name: f.name, Src: append([]byte(nil), f.src...), Version: v, Callback: true})
				task.Pipelines = append(task.Pipelines, scn.Pipeline{Input: vi})
			}
			s.Tasks = []scn.Task{task}
			r := b.execRun(dir, i, s, execOpts{noIso: true})
			if r.res == nil || len(r.res.PipeHashes) != len(vsplitVersions) {
				return
			}
			groups := map[string][]string{}
			for vi, h := range r.res.PipeHashes {
				if h == "" {
					return
				}
				groups[h] = append(groups[h], vsplitVersions[vi])
			}
			if len(groups) < 2 {
				return
			}
			e := &vsplitEntry{File: f.name}
			for _, g := range groups {
				e.Classes = append(e.Classes, g)
			}
			sort.Slice(e.Classes, func(a, b int) bool { return e.Classes[a][0] < e.Classes[b][0] })
			out[i] = e
		}()
	}
	wg.Wait()
	var list []*vsplitEntry
	for _, e := range out {
		if e != nil {
			list = append(list, e)
		}
	}
	raw, _ := json.MarshalIndent(list, "", " ")
	if err := os.WriteFile(filepath.Join(vd, "corpus", "vsplit.json"), raw, 0644); err != nil {
		fmt.Println(err)
		return 2
	}
	fmt.Printf("%d of %d corpus files parse differently under different versions; written to corpus/vsplit.json\n", len(list), len(files))
	return 0
}

// cliclean: workload material, computed once and committed (corpus/clean.json):
// the corpus files on which the pinned command-line program ends normally when
// it processes the file alone with every output flag set, under the default
// version and under 5.6. The pinned program crashes on a file whose parse
// yields no tree, and a crash ends the whole program, so a run of scenario C is
// only fully judged when every file is of this kind; the generator draws half
// of the scenario-C runs (and the many-files flavour) from this list. Only a
// hint: on a tree that behaves differently the runs are merely less pointed.
func clicleanCmd(par int) int {
	b, err := buildSimnode("cliclean")
	defer b.cleanup()
	if err != nil {
		fmt.Println(err)
		return 2
	}
	vd := verifDir()
	corp, err := loadCorpus(filepath.Join(vd, "corpus"))
	if err != nil {
		fmt.Println(err)
		return 2
	}
	dir := filepath.Join(b.scratch, "cliclean")
	os.MkdirAll(dir, 0755)
	var files []corpusFile
	for _, f := range corp.all {
		if len(f.src) <= 8192 && len(f.src) > 0 && !f.bad {
			files = append(files, f)
		}
	}
	ok := make([]bool, len(files))
	var wg sync.WaitGroup
	sem := make(chan struct{}, par)
	for i := range files {
		i := i
		wg.Add(1)
		sem <- struct{}{}
		go func() {
			defer wg.Done()
			defer func() { <-sem }()
			good := true
			for vi, ver := range []string{"", "5.6"} {
				s := &scn.Scenario{Prop: "C11", Kind: "C", RunSeed: uint64(i), Workers: 1, CLIFlags: []string{"-pb", "-d", "-r", "-e", "-p"}}
				if ver != "" {
					s.CLIFlags = append(s.CLIFlags, "-phpver", ver)
				}
				s.Inputs = []scn.Input{{Name: files[i].name, Src: append([]byte(nil), files[i].src...), Callback: true, Path: "fa0.php"}}
				r := b.execRun(dir, 2*i+vi, s, execOpts{noIso: true})
				if r.res == nil || r.infra != "" || len(r.res.Violations) > 0 || r.res.Probes["cli_abnormal_end_alone"] > 0 || r.res.Probes["cli_budget_abort"] > 0 {
					good = false
				}
			}
			ok[i] = good
		}()
	}
	wg.Wait()
	var list []string
	for i, f := range files {
		if ok[i] {
			list = append(list, f.name)
		}
	}
	raw, _ := json.MarshalIndent(list, "", " ")
	if err := os.WriteFile(filepath.Join(vd, "corpus", "clean.json"), raw, 0644); err != nil {
		fmt.Println(err)
		return 2
	}
	fmt.Printf("on %d of %d well-formed corpus files the command-line program ends normally with every output flag set; written to corpus/clean.json\n", len(list), len(files))
	return 0
}
