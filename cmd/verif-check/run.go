package main

import (
	"encoding/json"
	"fmt"
	"os"
	"os/exec"
	"path/filepath"
	"strconv"
	"strings"
	"sync"
	"syscall"
	"time"

	"verif/scn"
)

var runWallLimit = 90 * time.Second

// stopAtFirst (--stop-at-first, used by the seeded-defect sweeps): no new run is
// started once a run has shown a violation; stopNow is set by the sink, which
// runMany calls under its lock.
var stopAtFirst, stopNow bool

// cpuOf: user + system time a process has used so far (/proc/<pid>/stat, fields
// 14 and 15 in clock ticks of 10 ms).
func cpuOf(pid int) time.Duration {
	raw, err := os.ReadFile("/proc/" + strconv.Itoa(pid) + "/stat")
	if err != nil {
		return 0
	}
	s := string(raw)
	k := strings.LastIndex(s, ")")
	if k < 0 {
		return 0
	}
	f := strings.Fields(s[k+1:])
	if len(f) < 13 {
		return 0
	}
	ut, _ := strconv.ParseInt(f[11], 10, 64)
	st, _ := strconv.ParseInt(f[12], 10, 64)
	return time.Duration(ut+st) * 10 * time.Millisecond
}

const runRSSLimit = 4 << 30

type runOut struct {
	idx   int
	scn   *scn.Scenario
	res   *scn.Result
	infra string // infrastructure trouble: the run is no verdict
	races int
	wall  time.Duration

	retried bool
}

// rssOf reads the resident set size of a process from /proc.
func rssOf(pid int) int64 {
	raw, err := os.ReadFile("/proc/" + strconv.Itoa(pid) + "/statm")
	if err != nil {
		return 0
	}
	f := strings.Fields(string(raw))
	if len(f) < 2 {
		return 0
	}
	pages, _ := strconv.ParseInt(f[1], 10, 64)
	return pages * int64(os.Getpagesize())
}

type execOpts struct {
	noIso  bool
	tape   bool
	events string
	procs  int
}

// execRun runs one scenario in a fresh simnode process under the watchdog and
// folds the race detector's log into the result.
func (b *build) execRun(dir string, idx int, s *scn.Scenario, o execOpts) runOut {
	t0 := time.Now()
	out := runOut{idx: idx, scn: s}
	base := filepath.Join(dir, strconv.Itoa(idx))
	scnPath, resPath, racePath := base+".scn.json", base+".res.json", base+".race"
	raw, _ := json.Marshal(s)
	if err := os.WriteFile(scnPath, raw, 0644); err != nil {
		out.infra = err.Error()
		return out
	}
	old, _ := filepath.Glob(racePath + ".*")
	for _, f := range old {
		os.Remove(f)
	}
	os.Remove(resPath)
	args := []string{"-scn", scnPath, "-out", resPath}
	if o.tape {
		args = append(args, "-tape")
	}
	if o.events != "" {
		args = append(args, "-events", o.events)
	}
	cmd := exec.Command(b.simnode, args...)
	cmd.Env = append(os.Environ(), "GORACE=log_path="+racePath+" halt_on_error=0 atexit_sleep_ms=0 exitcode=0 history_size=7", "GOTRACEBACK=single")
	if o.procs > 0 {
		cmd.Env = append(cmd.Env, "ZZSIM_PROCS="+strconv.Itoa(o.procs))
	}
	var stderr strings.Builder
	cmd.Stderr = &stderr
	cmd.SysProcAttr = &syscall.SysProcAttr{Setpgid: true}
	if err := cmd.Start(); err != nil {
		out.infra = "cannot start simnode: " + err.Error()
		return out
	}
	done := make(chan error, 1)
	go func() { done <- cmd.Wait() }()
	tick := time.NewTicker(200 * time.Millisecond)
	defer tick.Stop()
	var werr error
wait:
	for {
		select {
		case werr = <-done:
			break wait
		case <-tick.C:
			// the limit is on the processor time the run has used (on a loaded
			// machine a heavy run may take several times as long on the wall
			// clock), with a generous wall-clock limit behind it
			cpuLimit := runWallLimit
			if o.procs > 1 {
				// selftest only: with several Ps every parked task spins on its own P
				cpuLimit *= time.Duration(o.procs)
			}
			if cpuOf(cmd.Process.Pid) > cpuLimit || time.Since(t0) > 8*runWallLimit {
				syscall.Kill(-cmd.Process.Pid, syscall.SIGKILL)
				<-done
				out.infra = fmt.Sprintf("infra_timeout: run exceeded %s of processor time (or %s on the wall clock)", runWallLimit, 8*runWallLimit)
				break wait
			}
			if rssOf(cmd.Process.Pid) > runRSSLimit {
				syscall.Kill(-cmd.Process.Pid, syscall.SIGKILL)
				<-done
				out.infra = "infra_memory: run exceeded 4 GB resident"
				break wait
			}
		}
	}
	out.wall = time.Since(t0)
	if out.infra != "" {
		return out
	}
	rawRes, rerr := os.ReadFile(resPath)
	if rerr != nil {
		if v := fatalCrash(stderr.String(), b.instr.UnsafeFiles); v != nil {
			// the Go runtime itself stopped the process inside the code under test
			// (invalid pointer arithmetic, concurrent map access, corrupted heap):
			// no result file can exist, the crash is the outcome
			out.res = &scn.Result{Prop: s.Prop, RunSeed: s.RunSeed, Violations: []scn.Violation{*v}, Faults: map[string]int64{}, Probes: map[string]int64{"process_stopped_by_runtime_fatal_error": 1}}
			return out
		}
		out.infra = fmt.Sprintf("simnode produced no result (%v): %s", werr, tail(stderr.String(), 1500))
		return out
	}
	var res scn.Result
	if err := json.Unmarshal(rawRes, &res); err != nil {
		out.infra = "unreadable result: " + err.Error()
		return out
	}
	out.res = &res
	if res.Infra != "" {
		out.infra = res.Infra
		return out
	}
	if werr != nil {
		out.infra = fmt.Sprintf("simnode exited abnormally (%v): %s", werr, tail(stderr.String(), 1500))
		return out
	}
	viol, infra, n := b.judgeRaces(racePath + ".*")
	out.races = n
	res.Violations = append(res.Violations, viol...)
	if infra != "" && len(res.Violations) == 0 {
		// a report about the simulator's own memory with nothing else wrong in
		// the run: harness trouble. (When the code under test shares memory
		// between tasks, the harness's reads of that memory race too; the run's
		// own violations then stand.)
		out.infra = infra
		return out
	}
	if s.Prop == "C13" && len(res.Violations) == 0 && !o.noIso && len(res.PipeHashes) == len(c13Kinds) {
		if v, infra := b.isolatedC13(base, scnPath, s, &res); infra != "" {
			out.infra = infra
		} else if v != nil {
			res.Violations = append(res.Violations, *v)
		}
	}
	if s.Prop == "C11" && len(res.Violations) == 0 && !o.noIso {
		if v, infra := b.isolatedReferences(base, scnPath, s, &res); infra != "" {
			out.infra = infra
		} else if v != nil {
			res.Violations = append(res.Violations, *v)
		}
	}
	return out
}

var c13Kinds = []string{"print", "dump", "dumpT", "dumpP", "dumpTP", "traverse", "resolve", "printP", "null"} // = harness opKinds

// isolatedC13 recomputes ONE entry of a C13 run's reference table (chosen by
// the run's seed) in a fresh, plain process in which nothing else has run.
func (b *build) isolatedC13(base, scnPath string, s *scn.Scenario, res *scn.Result) (*scn.Violation, string) {
	k := int((s.RunSeed >> 9) % uint64(len(c13Kinds)))
	if res.PipeHashes[k] == "" {
		return nil, ""
	}
	isoPath := base + ".iso.json"
	os.Remove(isoPath)
	cmd := exec.Command(b.simref, "-scn", scnPath, "-out", isoPath, "-iso", strconv.Itoa(k))
	cmd.Env = append(os.Environ(), "GOTRACEBACK=single")
	done := make(chan error, 1)
	if err := cmd.Start(); err != nil {
		return nil, "cannot start simref: " + err.Error()
	}
	go func() { done <- cmd.Wait() }()
	select {
	case <-done:
	case <-time.After(4 * runWallLimit):
		cmd.Process.Kill()
		<-done
		return nil, "infra_timeout: isolated reference exceeded " + runWallLimit.String()
	}
	raw, err := os.ReadFile(isoPath)
	if err != nil {
		return nil, "simref produced no result for kind " + c13Kinds[k]
	}
	var iso scn.Result
	if err := json.Unmarshal(raw, &iso); err != nil || len(iso.PipeHashes) != 1 {
		return nil, "unreadable simref result"
	}
	if iso.Infra != "" {
		return nil, "simref: " + iso.Infra
	}
	res.IsoChecked++
	if iso.PipeHashes[0] == res.PipeHashes[k] {
		return nil, ""
	}
	return &scn.Violation{Oracle: "H0-reference-equals-fresh-process", Sig: "isolated-reference:" + c13Kinds[k], Detail: fmt.Sprintf("%s on a freshly parsed tree of %s gives a different output in a fresh process, where nothing ran before it, than in the process that had already applied other operations to other trees: state kept outside the tree leaks between operations. fresh process: %s", c13Kinds[k], s.Inputs[0].Name, strings.Join(iso.Trace, " | "))}, ""
}

var hashParts = []string{"parse outcome", "reported errors", "tree after parsing"}

// isolatedReferences executes every pipeline of a C11 scenario ALONE in a fresh
// (plain, non-race) process and compares what it observed with what the same
// pipeline observed in the concurrent run. The in-process reference pass cannot
// see process-global residue that it inherits itself (DESIGN.md §4.1).
func (b *build) isolatedReferences(base, scnPath string, s *scn.Scenario, res *scn.Result) (*scn.Violation, string) {
	n := len(res.PipeHashes)
	// simref runs one fresh plain process: pipeline k alone (k >= 0), or every
	// pipeline one after the other in REVERSE order (k == -2)
	simref := func(k int) (*scn.Result, string) {
		isoPath := base + ".iso.json"
		os.Remove(isoPath)
		cmd := exec.Command(b.simref, "-scn", scnPath, "-out", isoPath, "-iso", strconv.Itoa(k))
		cmd.Env = append(os.Environ(), "GOTRACEBACK=single")
		done := make(chan error, 1)
		if err := cmd.Start(); err != nil {
			return nil, "cannot start simref: " + err.Error()
		}
		go func() { done <- cmd.Wait() }()
		select {
		case <-done:
		case <-time.After(4 * runWallLimit):
			cmd.Process.Kill()
			<-done
			return nil, "infra_timeout: isolated reference exceeded " + runWallLimit.String()
		}
		raw, err := os.ReadFile(isoPath)
		if err != nil {
			return nil, "simref produced no result for pipeline " + strconv.Itoa(k)
		}
		var iso scn.Result
		if err := json.Unmarshal(raw, &iso); err != nil {
			return nil, "unreadable simref result"
		}
		if iso.Infra != "" {
			return nil, "simref: " + iso.Infra
		}
		return &iso, ""
	}
	// which observation of pipeline k differs between two hash lists
	diffWhat := func(k int, a, b string) (what, sig string) {
		got, want := strings.Split(a, ","), strings.Split(b, ",")
		what = "number of observations"
		if len(got) == len(want) {
			for i := range got {
				if got[i] != want[i] {
					switch {
					case i < 3:
						what = hashParts[i]
					case i >= len(got)-3:
						what = []string{"final full dump", "tree at pipeline end", "error objects at pipeline end"}[i-(len(got)-3)]
					default:
						what = "operation " + strconv.Itoa(i-3)
					}
					break
				}
			}
		}
		sig = strings.Fields(what)[0]
		if s.Kind != "C" && strings.HasPrefix(what, "operation ") {
			pl := flattenPipes(s)[k]
			i, _ := strconv.Atoi(strings.TrimPrefix(what, "operation "))
			if i < len(pl.Ops) {
				what += " (" + pl.Ops[i].Kind + ")"
				sig = "op-" + pl.Ops[i].Kind
			}
		}
		return
	}
	checked := map[int]bool{}
	alone := func(k int) (*scn.Violation, string) {
		checked[k] = true
		iso, infra := simref(k)
		if infra != "" {
			return nil, infra
		}
		if len(iso.PipeHashes) != 1 {
			return nil, "unreadable simref result"
		}
		res.IsoChecked++
		if iso.PipeHashes[0] == res.PipeHashes[k] {
			return nil, ""
		}
		if s.Kind == "C" {
			return &scn.Violation{Oracle: "O1-equals-alone", Sig: "isolated:cli", Detail: fmt.Sprintf("file %s (%s): what php-parser %s produces for it differs between a run ALONE inside the process that had just run the whole tree concurrently and a run ALONE in a fresh process: state left behind in the process changes the result. fresh process: %s", s.Inputs[k].Path, s.Inputs[k].Name, strings.Join(s.CLIFlags, " "), strings.Join(iso.Trace, " | "))}, ""
		}
		what, sig := diffWhat(k, res.PipeHashes[k], iso.PipeHashes[0])
		pl := flattenPipes(s)[k]
		in := s.Inputs[pl.Input]
		return &scn.Violation{Oracle: "O1-equals-alone", Sig: "isolated:" + sig, Detail: fmt.Sprintf("pipeline %d (input %s, version %q): %s differs between the simulated concurrent run and the same pipeline executed ALONE in a fresh process; the in-process reference pass agreed with the concurrent run, so state left behind in the process by other work changes this result. alone: %s", k, in.Name, in.Version, what, strings.Join(iso.Trace, " | "))}, ""
	}
	// (1) order independence: all pipelines once more in a fresh process, one
	// after the other in reverse order. If every result equals the result of
	// the same work done alone, the order cannot matter; a pipeline that differs
	// is then executed alone to say which of the two results is the wrong one.
	if s.Kind != "C" && n >= 2 {
		rev, infra := simref(-2)
		if infra != "" {
			return nil, infra
		}
		if len(rev.PipeHashes) != n {
			return nil, "unreadable simref result (reverse-order pass)"
		}
		res.IsoChecked++
		for k := 0; k < n; k++ {
			if res.PipeHashes[k] == "" || rev.PipeHashes[k] == "" || rev.PipeHashes[k] == res.PipeHashes[k] {
				continue
			}
			if v, infra := alone(k); infra != "" || v != nil {
				return v, infra
			}
			what, sig := diffWhat(k, rev.PipeHashes[k], res.PipeHashes[k])
			pl := flattenPipes(s)[k]
			in := s.Inputs[pl.Input]
			return &scn.Violation{Oracle: "O1-equals-alone", Sig: "order:" + sig, Detail: fmt.Sprintf("pipeline %d (input %s, version %q): %s differs when all pipelines of the run are executed one after the other in reverse order in a fresh process, although the concurrent run agrees with the pipeline executed alone: what was processed earlier in the process changes this result", k, in.Name, in.Version, what)}, ""
		}
	}
	// (2) a sample of at most 6 pipelines (files), each ALONE in a fresh process;
	// when there are more, spread over all of them with a run-dependent offset
	stride, off := 1, 0
	if n > 6 {
		stride = (n + 5) / 6
		off = int(s.RunSeed % uint64(stride))
	}
	for k := off; k < n; k += stride {
		if res.PipeHashes[k] == "" || checked[k] {
			continue
		}
		if v, infra := alone(k); infra != "" || v != nil {
			return v, infra
		}
	}
	return nil, ""
}

func flattenPipes(s *scn.Scenario) (out []scn.Pipeline) {
	for _, t := range s.Tasks {
		out = append(out, t.Pipelines...)
	}
	return
}

func tail(s string, n int) string {
	if len(s) > n {
		return "…" + s[len(s)-n:]
	}
	return s
}

// runMany executes scenarios gen(i), i in [0,n), on `par` processes. Results
// are delivered to sink in index order is NOT guaranteed; sink is serialised.
func (b *build) runMany(dir string, n, par int, gen func(i int) *scn.Scenario, deadline time.Time, sink func(runOut)) int {
	var mu sync.Mutex
	var wg sync.WaitGroup
	next := 0
	started := 0
	for w := 0; w < par; w++ {
		wg.Add(1)
		go func(w int) {
			defer wg.Done()
			for {
				mu.Lock()
				i := next
				next++
				if i >= n || stopNow || (!deadline.IsZero() && time.Now().After(deadline)) {
					mu.Unlock()
					return
				}
				started++
				mu.Unlock()
				// every worker reuses its own file names: no pile-up of files
				sc := gen(i)
				r := b.execRun(dir, w, sc, execOpts{})
				if strings.HasPrefix(r.infra, "infra_timeout") {
					// a loaded machine, not the code under test, may be the cause:
					// once more before the run counts as infrastructure trouble
					r = b.execRun(dir, w, sc, execOpts{})
					r.retried = true
				}
				r.idx = i
				mu.Lock()
				sink(r)
				mu.Unlock()
			}
		}(w)
	}
	wg.Wait()
	return started
}

// fatalCrash recognises a fatal error of the Go runtime ("fatal error: ...",
// which no recover can catch) whose crashing goroutine is inside a package of
// the repository under test. Such a crash is an outcome of the code under test
// - in a real program it takes every other goroutine's work down with it - and
// not trouble of the harness: it is returned as a violation (and, like every
// violation, only reported if the replay shows it again). A fatal error with no
// repository frame in the crashing goroutine stays infrastructure trouble.
func fatalCrash(stderr string, unsafeFiles []string) *scn.Violation {
	k := strings.Index(stderr, "fatal error: ")
	if k < 0 {
		return nil
	}
	rest := stderr[k:]
	msg := rest
	if i := strings.Index(msg, "\n"); i >= 0 {
		msg = msg[:i]
	}
	// The collector or allocator found the heap corrupted. That is noticed on
	// one of the runtime's own goroutines, so no frame says who did it; but
	// memory-safe Go cannot do it, the simulator converts a pointer only to hand
	// a byte to a system call, and the tree under test contains files that use
	// unsafe / slice headers (the pinned tree has none): theirs is the corruption.
	if len(unsafeFiles) > 0 {
		for _, pat := range []string{"found bad pointer in Go heap", "found pointer to free object", "invalid pointer found on stack", "bad pointer in frame", "unexpected signal during runtime execution", "sweep increased allocation count", "found bad pointer", "workbuf is empty", "markroot", "bad sweepgen"} {
			if strings.Contains(msg, pat) || (pat == "found bad pointer in Go heap" && strings.Contains(stderr, pat)) {
				return &scn.Violation{Oracle: "O0-no-runtime-crash", Sig: "fatal:heap-corruption",
					Detail: "the Go runtime stopped the whole process with [" + msg + "]: the heap is corrupted. The tree under test uses unsafe pointer conversions or slice headers in " + strings.Join(unsafeFiles, ", ") + " (the unchanged tree does so nowhere); an object was freed or overwritten while still in use."}
			}
		}
	}
	// the first goroutine listed is the one that crashed
	g := rest
	if i := strings.Index(g, "\ngoroutine "); i >= 0 {
		g = g[i+1:]
	}
	if i := strings.Index(g, "\n\n"); i >= 0 {
		g = g[:i]
	}
	frame := ""
	for _, l := range strings.Split(g, "\n") {
		if strings.HasPrefix(l, "github.com/z7zmey/php-parser/") && !strings.HasPrefix(l, "github.com/z7zmey/php-parser/pkg/zzsim") {
			frame = strings.TrimPrefix(l, "github.com/z7zmey/php-parser/")
			if i := strings.Index(frame, "("); i > 0 && !strings.HasPrefix(frame[i:], "(*") {
				frame = frame[:i]
			} else if j := strings.LastIndex(frame, "("); j > 0 {
				frame = frame[:j]
			}
			break
		}
	}
	if frame == "" {
		return nil
	}
	return &scn.Violation{Oracle: "O0-no-runtime-crash", Sig: "fatal:" + strings.TrimPrefix(msg, "fatal error: ") + " in " + frame,
		Detail: "the Go runtime stopped the whole process with [" + msg + "] while executing " + frame + " (code of the repository under test); in a program every other goroutine's work is lost with it. Crashing goroutine: " + oneLine(tail(g, 900))}
}
