package main

import (
	"encoding/json"
	"fmt"
	"os"
	"os/exec"
	"path/filepath"
	"strconv"
	"strings"
	"sync"
	"syscall"
	"time"

	"verif/scn"
)

const (
	runWallLimit = 90 * time.Second
	runRSSLimit  = 4 << 30
)

type runOut struct {
	idx   int
	scn   *scn.Scenario
	res   *scn.Result
	infra string // infrastructure trouble: the run is no verdict
	races int
	wall  time.Duration
}

// rssOf reads the resident set size of a process from /proc.
func rssOf(pid int) int64 {
	raw, err := os.ReadFile("/proc/" + strconv.Itoa(pid) + "/statm")
	if err != nil {
		return 0
	}
	f := strings.Fields(string(raw))
	if len(f) < 2 {
		return 0
	}
	pages, _ := strconv.ParseInt(f[1], 10, 64)
	return pages * int64(os.Getpagesize())
}

type execOpts struct {
	tape   bool
	events string
	procs  int
}

// execRun runs one scenario in a fresh simnode process under the watchdog and
// folds the race detector's log into the result.
func (b *build) execRun(dir string, idx int, s *scn.Scenario, o execOpts) runOut {
	t0 := time.Now()
	out := runOut{idx: idx, scn: s}
	base := filepath.Join(dir, strconv.Itoa(idx))
	scnPath, resPath, racePath := base+".scn.json", base+".res.json", base+".race"
	raw, _ := json.Marshal(s)
	if err := os.WriteFile(scnPath, raw, 0644); err != nil {
		out.infra = err.Error()
		return out
	}
	old, _ := filepath.Glob(racePath + ".*")
	for _, f := range old {
		os.Remove(f)
	}
	os.Remove(resPath)
	args := []string{"-scn", scnPath, "-out", resPath}
	if o.tape {
		args = append(args, "-tape")
	}
	if o.events != "" {
		args = append(args, "-events", o.events)
	}
	cmd := exec.Command(b.simnode, args...)
	cmd.Env = append(os.Environ(), "GORACE=log_path="+racePath+" halt_on_error=0 atexit_sleep_ms=0 exitcode=0 history_size=7", "GOTRACEBACK=single")
	if o.procs > 0 {
		cmd.Env = append(cmd.Env, "ZZSIM_PROCS="+strconv.Itoa(o.procs))
	}
	var stderr strings.Builder
	cmd.Stderr = &stderr
	cmd.SysProcAttr = &syscall.SysProcAttr{Setpgid: true}
	if err := cmd.Start(); err != nil {
		out.infra = "cannot start simnode: " + err.Error()
		return out
	}
	done := make(chan error, 1)
	go func() { done <- cmd.Wait() }()
	tick := time.NewTicker(200 * time.Millisecond)
	defer tick.Stop()
	var werr error
wait:
	for {
		select {
		case werr = <-done:
			break wait
		case <-tick.C:
			if time.Since(t0) > runWallLimit {
				syscall.Kill(-cmd.Process.Pid, syscall.SIGKILL)
				<-done
				out.infra = fmt.Sprintf("infra_timeout: run exceeded %s wall", runWallLimit)
				break wait
			}
			if rssOf(cmd.Process.Pid) > runRSSLimit {
				syscall.Kill(-cmd.Process.Pid, syscall.SIGKILL)
				<-done
				out.infra = "infra_memory: run exceeded 4 GB resident"
				break wait
			}
		}
	}
	out.wall = time.Since(t0)
	if out.infra != "" {
		return out
	}
	rawRes, rerr := os.ReadFile(resPath)
	if rerr != nil {
		out.infra = fmt.Sprintf("simnode produced no result (%v): %s", werr, tail(stderr.String(), 1500))
		return out
	}
	var res scn.Result
	if err := json.Unmarshal(rawRes, &res); err != nil {
		out.infra = "unreadable result: " + err.Error()
		return out
	}
	out.res = &res
	if res.Infra != "" {
		out.infra = res.Infra
		return out
	}
	if werr != nil {
		out.infra = fmt.Sprintf("simnode exited abnormally (%v): %s", werr, tail(stderr.String(), 1500))
		return out
	}
	viol, infra, n := b.judgeRaces(racePath + ".*")
	out.races = n
	if infra != "" {
		out.infra = infra
		return out
	}
	res.Violations = append(res.Violations, viol...)
	return out
}

func tail(s string, n int) string {
	if len(s) > n {
		return "…" + s[len(s)-n:]
	}
	return s
}

// runMany executes scenarios gen(i), i in [0,n), on `par` processes. Results
// are delivered to sink in index order is NOT guaranteed; sink is serialised.
func (b *build) runMany(dir string, n, par int, gen func(i int) *scn.Scenario, deadline time.Time, sink func(runOut)) int {
	var mu sync.Mutex
	var wg sync.WaitGroup
	next := 0
	started := 0
	for w := 0; w < par; w++ {
		wg.Add(1)
		go func(w int) {
			defer wg.Done()
			for {
				mu.Lock()
				i := next
				next++
				if i >= n || (!deadline.IsZero() && time.Now().After(deadline)) {
					mu.Unlock()
					return
				}
				started++
				mu.Unlock()
				// every worker reuses its own file names: no pile-up of files
				r := b.execRun(dir, w, gen(i), execOpts{})
				r.idx = i
				mu.Lock()
				sink(r)
				mu.Unlock()
			}
		}(w)
	}
	wg.Wait()
	return started
}
