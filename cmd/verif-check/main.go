// verif-check: orchestrator of the deterministic-simulation checks for
// properties C11, C13 and C18 of z7zmey/PHP-Parser. DESIGN.md §2.4.
//
//	verif-check <C11|C13|C18> [--tier quick|thorough] [--runs N] [--budget SECONDS]
//	verif-check <C11|C13|C18> --replay <file>
//	verif-check selftest [--seeds N]
//
// Exit 0: property held on everything explored. Exit 1: violation (a line
// "VIOLATION property=<id> replay=<path>" is printed). Exit 2: infrastructure
// trouble (build failure, watchdog, harness-only race report, ...): no verdict.
package main

import (
	"encoding/json"
	"flag"
	"fmt"
	"os"
	"path/filepath"
	"runtime"
	"sort"
	"strconv"
	"strings"
	"time"

	"verif/scn"
)

func fatal2(format string, a ...interface{}) {
	fmt.Fprintf(os.Stderr, "verif-check: INFRASTRUCTURE TROUBLE (no verdict): "+format+"\n", a...)
	os.Exit(2)
}

type tierCfg struct {
	runs   int
	budget time.Duration
}

var tiers = map[string]map[string]tierCfg{
	"quick": {
		"C11": {5000, 110 * time.Second},
		"C13": {8000, 80 * time.Second},
		"C18": {8000, 70 * time.Second},
	},
	"thorough": {
		"C11": {400000, 40 * time.Minute},
		"C13": {300000, 25 * time.Minute},
		"C18": {300000, 20 * time.Minute},
	},
}

var maxReported = 3

type known struct {
	prop, sig, text string
}

func loadKnown(path string) []known {
	raw, err := os.ReadFile(path)
	if err != nil {
		return nil
	}
	var out []known
	for _, l := range strings.Split(string(raw), "\n") {
		l = strings.TrimSpace(l)
		if !strings.HasPrefix(l, "known:") {
			continue // comments and "fixed:" entries suppress nothing
		}
		k := known{text: strings.TrimSpace(strings.TrimPrefix(l, "known:"))}
		for _, f := range strings.Fields(k.text) {
			if strings.HasPrefix(f, "property=") {
				k.prop = strings.TrimPrefix(f, "property=")
			}
		}
		if i := strings.Index(k.text, "sig=\""); i >= 0 {
			rest := k.text[i+5:]
			if j := strings.Index(rest, "\""); j >= 0 {
				k.sig = rest[:j]
			}
		}
		if k.prop != "" && k.sig != "" {
			out = append(out, k)
		}
	}
	return out
}

func main() {
	if len(os.Args) < 2 {
		fmt.Fprintln(os.Stderr, "usage: verif-check <C11|C13|C18|selftest> [flags]")
		os.Exit(2)
	}
	prop := os.Args[1]
	fs := flag.NewFlagSet("verif-check", flag.ExitOnError)
	tier := fs.String("tier", envOr("VERIF_TIER", "quick"), "quick | thorough")
	runs := fs.Int("runs", 0, "number of simulated runs (0: the tier's default)")
	budget := fs.Int("budget", 0, "wall-clock budget for the runs in seconds (0: the tier's default)")
	replay := fs.String("replay", "", "re-execute a replay file")
	par := fs.Int("par", runtime.NumCPU(), "simulated runs in parallel (one OS process each)")
	seeds := fs.Int("seeds", 64, "selftest: seeds per property")
	only := fs.Int("only", -1, "debug: execute only run index i and print its scenario and result")
	maxReport := fs.Int("max-report", 3, "minimise and report at most this many distinct violation signatures")
	minCand := fs.Int("min-candidates", 300, "candidate runs the minimiser may spend per violation")
	noEvidence := fs.Bool("no-evidence", false, "do not write the evidence file (used when testing seeded defects)")
	fs.BoolVar(&stopAtFirst, "stop-at-first", false, "start no further run once one run has shown a violation (sweeps over seeded defects)")
	fs.Parse(os.Args[2:])
	maxReported, maxCandidates = *maxReport, *minCand
	if *tier != "quick" && *tier != "thorough" {
		*tier = "quick"
	}
	seed, err := strconv.ParseUint(envOr("VERIF_SEED", "1"), 10, 64)
	if err != nil {
		s2, _ := strconv.ParseInt(os.Getenv("VERIF_SEED"), 10, 64)
		seed = uint64(s2)
	}
	fmt.Printf("verif-check %s tier=%s VERIF_SEED=%d\n", prop, *tier, seed)

	if prop == "selftest" {
		os.Exit(selftest(seed, *seeds, *par))
	}
	if prop == "vsplit" {
		os.Exit(vsplitCmd(*par))
	}
	if prop == "cliclean" {
		os.Exit(clicleanCmd(*par))
	}
	if prop == "instrumented-tests" {
		b, err := buildSimnode("itests")
		defer b.cleanup()
		if err != nil {
			b.cleanup()
			fatal2("%v", err)
		}
		ok, out := instrumentedTests(b)
		fmt.Println(out)
		b.cleanup()
		if !ok {
			fatal2("the repository's own tests do not pass on the instrumented copy: the instrumenter changed behaviour")
		}
		fmt.Println("OK the repository's test suite passes on the instrumented copy")
		os.Exit(0)
	}
	if prop != "C11" && prop != "C13" && prop != "C18" {
		fatal2("unknown property %q (claimed: C11, C13, C18)", prop)
	}
	b, err := buildSimnode(prop)
	defer b.cleanup()
	if err != nil {
		b.cleanup()
		fatal2("%v", err)
	}
	applyBuildLimits(b)
	fmt.Printf("built instrumented simnode in %.1fs: %d yield sites, knob %v, sync rewritten in %v, go statements %v, channel ops wrapped %d, not wrappable %v\n",
		b.wall.Seconds(), len(b.instr.Sites), b.instr.Knob, b.instr.SyncRewrite, b.instr.GoStmts, len(b.instr.ChanWrapped), b.instr.ChanOps)
	code := 0
	deepTier = *tier == "thorough"
	if want := os.Getenv("VERIF_FIND"); want != "" {
		// debug: list the run indexes whose generated scenario contains the text
		corp, err := loadCorpus(filepath.Join(verifDir(), "corpus"))
		if err != nil {
			fatal2("corpus: %v", err)
		}
		n := *runs
		if n == 0 {
			n = 2000
		}
		for i := 0; i < n; i++ {
			sc := generate(prop, corp, mix(seed, uint64(i)))
			for k := range sc.Inputs {
				sc.Inputs[k].Src = nil
			}
			if raw, _ := json.Marshal(sc); strings.Contains(string(raw), want) {
				fmt.Printf("run %d: %s\n", i, oneLine(string(raw)))
			}
		}
		b.cleanup()
		os.Exit(0)
	}
	if *only >= 0 {
		corp, err := loadCorpus(filepath.Join(verifDir(), "corpus"))
		if err != nil {
			fatal2("corpus: %v", err)
		}
		sc := generate(prop, corp, mix(seed, uint64(*only)))
		dir := filepath.Join(b.scratch, "only")
		os.MkdirAll(dir, 0755)
		t0 := time.Now()
		r := b.execRun(dir, 0, sc, execOpts{})
		if r.res == nil {
			r.res = &scn.Result{}
		}
		js, _ := json.MarshalIndent(sampleOf(r), "", " ")
		fmt.Printf("%s\ninfra=%q wall=%.1fs races=%d violations=%v probes=%v trace=%v\n", js, r.infra, time.Since(t0).Seconds(), r.races, r.res.Violations, r.res.Probes, r.res.Trace)
		b.cleanup()
		os.Exit(0)
	}
	if *replay != "" {
		code = doReplay(b, prop, *replay)
	} else {
		cfg := tiers[*tier][prop]
		deepTier = *tier == "thorough"
		if *runs > 0 {
			cfg.runs = *runs
		}
		if *budget > 0 {
			cfg.budget = time.Duration(*budget) * time.Second
		}
		if *tier == "thorough" && *runs == 0 {
			// self-check of the rewriter: the repository's own tests on the instrumented copy
			if ok, out := instrumentedTests(b); !ok {
				fmt.Println(out)
				b.cleanup()
				fatal2("the repository's own tests do not pass on the instrumented copy: the instrumenter changed behaviour")
			}
			fmt.Println("instrumenter self-check: the repository's test suite passes on the instrumented copy")
		}
		code = check(b, prop, *tier, seed, cfg, *par, !*noEvidence)
	}
	b.cleanup()
	os.Exit(code)
}

// instrumentedTests runs the repository's own test suite on the instrumented
// copy (yield points are inert outside a simulation): the rewriter must not
// change behaviour.
func instrumentedTests(b *build) (bool, string) {
	out, err := run(b.src, goEnv(), "go", "test", "-vet=off", "-count=1", "./...")
	var keep []string
	nok := 0
	for _, l := range strings.Split(out, "\n") {
		if strings.HasPrefix(l, "ok ") {
			nok++
		}
		if strings.HasPrefix(l, "ok ") || strings.HasPrefix(l, "? ") || strings.TrimSpace(l) == "" {
			continue
		}
		keep = append(keep, l)
	}
	if len(keep) > 40 {
		keep = keep[:40]
	}
	keep = append(keep, fmt.Sprintf("%d packages with tests report ok", nok))
	return err == nil && nok > 0, strings.Join(keep, "\n")
}

// applyBuildLimits switches off what this tree's build could not provide.
func applyBuildLimits(b *build) {
	if b.cliSkipped != "" {
		cliEnabled = false
		fmt.Printf("scenario C (the real cmd/php-parser under simulation) is skipped: %s\n", b.cliSkipped)
	}
	for _, st := range b.instr.Knob {
		if st != "var" && b.knobNote == "" {
			b.knobNote = "block-size knob unavailable: no `const DefaultBlockSize = ...` declaration found in the pools"
		}
	}
	if len(b.instr.Knob) < 2 && b.knobNote == "" {
		b.knobNote = "block-size knob unavailable: pool files not found"
	}
	if b.knobNote != "" {
		knobEnabled = false
		fmt.Println(b.knobNote)
	}
	if len(b.instr.KnobEntangled) > 0 && knobEnabled {
		// DefaultBlockSize is used inside expressions: a small value could give
		// derived sizes (DefaultBlockSize/8, DefaultBlockSize-1 as a mask ...)
		// that the tree never meets with its real constant. The knob then keeps
		// to larger powers of two.
		knobEntangled = true
		fmt.Printf("DefaultBlockSize is used inside expressions (%s): the block-size knob keeps to powers of two >= 64\n", strings.Join(b.instr.KnobEntangled, ", "))
	}
	clockUsed = b.instr.ClockWaits > 0
	if b.clockNote != "" {
		fmt.Println(b.clockNote)
	} else if clockUsed {
		fmt.Printf("the tree waits on the clock at %d call sites (files %s): simulated clock with per-run speed and injected jumps\n", b.instr.ClockWaits, strings.Join(b.instr.TimeRewrite, ", "))
	}
	// the tree's library code uses sync / sync/atomic: a share of the runs
	// preempts at the edges of critical sections (site class "sync")
	syncLib = b.instr.SyncLib > 0
	if syncLib {
		fmt.Printf("%d library files use sync or sync/atomic: scheduler class \"sync\" enabled\n", b.instr.SyncLib)
	}
}

func envOr(k, d string) string {
	if v := os.Getenv(k); v != "" {
		return v
	}
	return d
}

type agg struct {
	runs, nontrivial       int
	distinct               map[string]bool // scenario-hash/event-hash of non-trivial runs
	interleavings          map[string]bool
	steps, refSteps, maxSt int64
	switches, preempt      int64
	forced                 int64
	ops, iso               int64
	races                  int
	faults, probes         map[string]int64
	sitesHit, sitesSwitch  map[int]bool
	modes                  map[string]int
	kinds                  map[string]int
	knobs                  map[string]int
	themes                 map[string]int
	infra                  []string
	viol                   []violRun
	samples                []interface{}
	wall, maxRunWall       time.Duration
	retried                int
	probePairs, probeDiv   int
}

type violRun struct {
	idx int
	scn *scn.Scenario
	v   scn.Violation
}

var modeNames = []string{"run-to-completion", "random-preemption", "pct", "site-biased"}

func scnHash(s *scn.Scenario) string {
	raw, _ := json.Marshal(s)
	h := uint64(0xcbf29ce484222325)
	for _, c := range raw {
		h = (h ^ uint64(c)) * 0x100000001b3
	}
	return strconv.FormatUint(h, 16)
}

func (a *agg) add(b *build, r runOut) {
	a.runs++
	if r.wall > a.maxRunWall {
		a.maxRunWall = r.wall
	}
	if r.retried {
		a.retried++
	}
	if r.infra != "" {
		a.infra = append(a.infra, fmt.Sprintf("run %d (seed %d): %s", r.idx, r.scn.RunSeed, r.infra))
		return
	}
	res := r.res
	a.steps += res.Steps
	a.refSteps += res.RefSteps
	if res.Steps > a.maxSt {
		a.maxSt = res.Steps
	}
	a.switches += res.Switches
	a.preempt += res.Preemptions
	a.forced += res.ForcedYields
	a.ops += int64(res.Ops)
	a.iso += int64(res.IsoChecked)
	a.races += r.races
	for k, v := range res.Faults {
		a.faults[k] += v
	}
	for k, v := range res.Probes {
		a.probes[k] += v
	}
	for _, s := range res.SitesHit {
		a.sitesHit[s] = true
	}
	for _, s := range res.SitesSwitch {
		a.sitesSwitch[s] = true
	}
	a.modes[modeNames[r.scn.Sched.Mode&3]]++
	a.kinds[r.scn.Kind]++
	a.knobs[strconv.Itoa(r.scn.Knob)]++
	if r.scn.Theme != "" {
		a.themes[r.scn.Theme]++
	} else {
		a.themes["(mixed)"]++
	}
	a.interleavings[res.EventHash] = true
	if res.NonTrivial {
		a.nontrivial++
		a.distinct[scnHash(r.scn)+"/"+res.EventHash] = true
	}
	for _, v := range res.Violations {
		a.viol = append(a.viol, violRun{r.idx, r.scn, v})
	}
	if len(a.samples) < 3 && res.NonTrivial {
		a.samples = append(a.samples, sampleOf(r))
	}
}

func sampleOf(r runOut) map[string]interface{} {
	s := r.scn
	m := map[string]interface{}{
		"run_seed": s.RunSeed, "kind": s.Kind, "scheduler": modeNames[s.Sched.Mode&3], "mean_or_k": s.Sched.Mean, "site_class": s.Sched.SiteClass,
		"knob_block_size": s.Knob, "gc_steps": s.Faults.GCSteps, "steps": r.res.Steps, "switches": r.res.Switches, "preemptions": r.res.Preemptions,
		"forced_yields": r.res.ForcedYields, "event_hash": r.res.EventHash, "outcome_hash": r.res.OutcomeHash,
	}
	var ins []string
	for _, in := range s.Inputs {
		ins = append(ins, fmt.Sprintf("%s (%dB, version %q, callback %v)", in.Name, len(in.Src), in.Version, in.Callback))
	}
	if ins != nil {
		m["inputs"] = ins
	}
	if len(s.Tasks) > 0 {
		var ts []string
		for ti, t := range s.Tasks {
			for _, p := range t.Pipelines {
				var ops []string
				for _, o := range p.Ops {
					kind := o.Kind
					if o.Sub > 0 {
						kind += fmt.Sprintf("(statement %d)", o.Sub-1)
					} else if o.Sub < 0 {
						kind += fmt.Sprintf("(vertex %d)", -o.Sub-1)
					}
					if o.Fault != nil {
						ops = append(ops, fmt.Sprintf("%s[%s @%d]", kind, o.Fault.Kind, o.Fault.At))
					} else {
						ops = append(ops, kind)
					}
				}
				ts = append(ts, fmt.Sprintf("task %d: parse(input %d, shared-version %v) -> %s", ti, p.Input, p.ShareVersion, strings.Join(ops, ",")))
			}
		}
		m["pipelines"] = ts
		if s.Kind == "B" {
			m["topology"] = fmt.Sprintf("1 producer, %d parser workers, 1 consumer, queue capacity %d", s.Workers, s.QueueCap)
		}
	}
	if s.Kind == "C" {
		var fs []string
		for _, in := range s.Inputs {
			fs = append(fs, fmt.Sprintf("%s = %s (%dB)", in.Path, in.Name, len(in.Src)))
		}
		m["program"] = fmt.Sprintf("php-parser %s %s with %d parser workers (the real cmd/php-parser main, goroutines, channels and WaitGroup under the simulated scheduler)", strings.Join(s.CLIFlags, " "), strings.Join(s.CLIPaths, " "), s.Workers)
		m["files"] = fs
		if len(s.FSFaults) > 0 {
			var ff []string
			for _, f := range s.FSFaults {
				ff = append(ff, f.Kind+" on "+f.Path)
			}
			m["io_faults"] = ff
		}
		delete(m, "inputs")
	}
	if len(s.History) > 0 {
		var h []string
		for _, o := range s.History {
			k := o.Kind
			if o.Sub > 0 {
				k += fmt.Sprintf("(statement %d)", o.Sub-1)
			} else if o.Sub < 0 {
				k += fmt.Sprintf("(vertex %d in pre-order)", -o.Sub-1)
			}
			if o.Fault != nil {
				h = append(h, fmt.Sprintf("%s[writer %s @%d]", k, o.Fault.Kind, o.Fault.At))
			} else {
				h = append(h, k)
			}
		}
		m["history"] = h
	}
	if len(s.PoolTasks) > 0 {
		var pts []string
		for ti, pt := range s.PoolTasks {
			var ps, ops []string
			for _, p := range pt.Pools {
				ps = append(ps, fmt.Sprintf("%s/block=%d", p.Type, p.Block))
			}
			for _, o := range pt.Ops {
				switch o.Kind {
				case "get":
					ops = append(ops, fmt.Sprintf("get(p%d)x%d", o.Pool, o.N))
				case "rr":
					ops = append(ops, fmt.Sprintf("one-from-every-pool x%d", o.N))
				case "write":
					ops = append(ops, fmt.Sprintf("write(p%d,#%d)", o.Pool, o.Arg))
				default:
					ops = append(ops, o.Kind)
				}
			}
			relay := ""
			if pt.Relay {
				relay = " (executed by two goroutines in turn)"
			}
			pts = append(pts, fmt.Sprintf("task %d%s pools [%s]: %s", ti, relay, strings.Join(ps, " "), strings.Join(ops, " ")))
		}
		m["pool_tasks"] = pts
	}
	return m
}

func check(b *build, prop, tier string, seed uint64, cfg tierCfg, par int, writeEvidence bool) int {
	vd := verifDir()
	corp, err := loadCorpus(filepath.Join(vd, "corpus"))
	if err != nil {
		fatal2("corpus: %v", err)
	}
	runDir := filepath.Join(b.scratch, "runs")
	os.MkdirAll(runDir, 0755)
	a := &agg{distinct: map[string]bool{}, interleavings: map[string]bool{}, faults: map[string]int64{}, probes: map[string]int64{},
		sitesHit: map[int]bool{}, sitesSwitch: map[int]bool{}, modes: map[string]int{}, kinds: map[string]int{}, knobs: map[string]int{}, themes: map[string]int{}}
	t0 := time.Now()
	deadline := t0.Add(cfg.budget)
	gen := func(i int) *scn.Scenario { return generate(prop, corp, mix(seed, uint64(i))) }
	type probe struct{ ev, out string }
	firstPass := map[int]probe{}
	b.runMany(runDir, cfg.runs, par, gen, deadline, func(r runOut) {
		a.add(b, r)
		if stopAtFirst && r.res != nil && len(r.res.Violations) > 0 {
			stopNow = true
		}
		if r.idx%50 == 7 && r.res != nil {
			firstPass[r.idx] = probe{r.res.EventHash, r.res.OutcomeHash}
		}
	})
	// determinism probe: 2% of the runs are executed a second time
	var idxs []int
	for i := range firstPass {
		idxs = append(idxs, i)
	}
	sort.Ints(idxs)
	if len(idxs) > 400 {
		idxs = idxs[:400]
	}
	var diverged []string
	b.runMany(runDir, len(idxs), par, func(k int) *scn.Scenario { return gen(idxs[k]) }, time.Time{}, func(r runOut) {
		if r.res == nil {
			return
		}
		a.probePairs++
		p := firstPass[idxs[r.idx]]
		if p.ev != r.res.EventHash || p.out != r.res.OutcomeHash {
			a.probeDiv++
			diverged = append(diverged, fmt.Sprintf("run %d", idxs[r.idx]))
		}
	})
	a.wall = time.Since(t0)

	fmt.Printf("%d simulated runs in %.1fs (%.0f runs/hour), %d non-trivial, %d distinct interleavings, %d steps simulated, %d preemptions, %d forced yields, %d race reports, sites executed %d/%d\n",
		a.runs, a.wall.Seconds(), float64(a.runs)/a.wall.Hours(), a.nontrivial, len(a.interleavings), a.steps, a.preempt, a.forced, a.races, len(a.sitesHit), len(b.instr.Sites))
	fmt.Printf("slowest run %.1fs wall (limit %.0fs), %d runs re-executed after a wall-clock timeout\n", a.maxRunWall.Seconds(), runWallLimit.Seconds(), a.retried)
	if a.probeDiv > 0 {
		fmt.Printf("WARNING: determinism probe: %d of %d re-executed runs diverged (%s)\n", a.probeDiv, a.probePairs, strings.Join(diverged, ", "))
	}

	if path := os.Getenv("VERIF_SITES_REPORT"); path != "" {
		var sb strings.Builder
		for _, st := range b.instr.Sites {
			if !a.sitesHit[st.ID] {
				fmt.Fprintf(&sb, "%s:%d %s %s\n", st.File, st.Line, st.Func, st.Kind)
			}
		}
		os.WriteFile(path, []byte(sb.String()), 0644)
	}

	// ---- verdict
	code := 0
	knownList := loadKnown(filepath.Join(vd, "known_findings.txt"))
	bySig := map[string][]violRun{}
	var sigs []string
	for _, v := range a.viol {
		if _, ok := bySig[v.v.Sig]; !ok {
			sigs = append(sigs, v.v.Sig)
		}
		bySig[v.v.Sig] = append(bySig[v.v.Sig], v)
	}
	sort.Strings(sigs)
	newViol := 0
	reported := 0
	for _, sig := range sigs {
		vs := bySig[sig]
		sort.Slice(vs, func(i, j int) bool { return vs[i].idx < vs[j].idx })
		isKnown := false
		for _, k := range knownList {
			if k.prop == prop && k.sig == sig {
				fmt.Printf("KNOWN-FINDING: property=%s %s (seen in %d runs, first run %d)\n", prop, k.text, len(vs), vs[0].idx)
				isKnown = true
			}
		}
		if isKnown {
			continue
		}
		newViol++
		if reported >= maxReported {
			fmt.Printf("further violation signature (not minimised): %s in %d runs, first run %d: %s\n", sig, len(vs), vs[0].idx, oneLine(vs[0].v.Detail))
			continue
		}
		path, ok := reportViolation(b, prop, vs[0])
		if ok {
			reported++
			fmt.Printf("VIOLATION property=%s replay=%s\n", prop, path)
			code = 1
		} else {
			a.infra = append(a.infra, "violation "+sig+" of run "+strconv.Itoa(vs[0].idx)+" did not reproduce on replay: "+oneLine(vs[0].v.Detail))
		}
	}
	if len(a.infra) > 0 {
		for i, m := range a.infra {
			if i < 5 {
				fmt.Fprintln(os.Stderr, "infrastructure trouble:", m)
			}
		}
		if code == 0 {
			code = 2
		}
	}
	if a.runs == 0 {
		fatal2("no run was executed")
	}
	if writeEvidence {
		if err := writeEvidenceFile(b, a, prop, tier, seed, newViol, cfg); err != nil {
			fatal2("evidence: %v", err)
		}
	}
	switch code {
	case 0:
		fmt.Printf("OK property=%s held on all %d simulated runs\n", prop, a.runs)
	case 2:
		fmt.Printf("NO VERDICT property=%s: %d runs had infrastructure trouble\n", prop, len(a.infra))
	}
	return code
}

func oneLine(s string) string {
	s = strings.ReplaceAll(s, "\n", " | ")
	if len(s) > 300 {
		s = s[:300] + "…"
	}
	return s
}

func doReplay(b *build, prop, path string) int {
	raw, err := os.ReadFile(path)
	if err != nil {
		fatal2("%v", err)
	}
	var rp scn.Replay
	if err := json.Unmarshal(raw, &rp); err != nil || rp.Scenario == nil {
		fatal2("not a replay file: %s", path)
	}
	dir := filepath.Join(b.scratch, "replay")
	os.MkdirAll(dir, 0755)
	tries := 1
	if rp.Flaky {
		tries = 2 * flakyTries
	}
	var r runOut
	for k := 0; k < tries; k++ {
		r = b.execRun(dir, 0, rp.Scenario, execOpts{})
		if r.infra != "" {
			fatal2("replay: %s", r.infra)
		}
		for _, v := range r.res.Violations {
			if sigFamily(v.Sig) == sigFamily(rp.Signature) {
				fmt.Printf("replay reproduces (execution %d of at most %d): %s %s\n%s\n", k+1, tries, v.Oracle, v.Sig, v.Detail)
				fmt.Printf("VIOLATION property=%s replay=%s\n", prop, path)
				return 1
			}
		}
		if len(r.res.Violations) > 0 {
			break
		}
	}
	if len(r.res.Violations) > 0 {
		fmt.Printf("replay shows a DIFFERENT violation than recorded (%s): %s %s\n", rp.Signature, r.res.Violations[0].Sig, oneLine(r.res.Violations[0].Detail))
		fmt.Printf("VIOLATION property=%s replay=%s\n", prop, path)
		return 1
	}
	fmt.Printf("replay does not show the recorded violation (%s) on this tree\n", rp.Signature)
	return 0
}
