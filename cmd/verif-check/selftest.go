package main

import (
	"fmt"
	"os"
	"path/filepath"
	"strings"
	"sync"

	"verif/scn"
)

// selftest proves the simulator deterministic (DESIGN.md §6): for each seed of
// each property the full event log and outcome hash must be identical across
// {spin, pipe} hand-over x GOMAXPROCS {1,4,16} x 2 repetitions, and a replay
// from the recorded tapes must reproduce the generated run.
func selftest(seed uint64, seeds, par int) int {
	b, err := buildSimnode("selftest")
	defer b.cleanup()
	if err != nil {
		b.cleanup()
		fatal2("%v", err)
	}
	applyBuildLimits(b)
	deepTier = os.Getenv("VERIF_SELFTEST_DEEP") != ""
	corp, err := loadCorpus(filepath.Join(verifDir(), "corpus"))
	if err != nil {
		fatal2("corpus: %v", err)
	}
	dir := filepath.Join(b.scratch, "st")
	os.MkdirAll(dir, 0755)
	type job struct {
		prop string
		i    int
	}
	var jobs []job
	for _, p := range []string{"C11", "C13", "C18"} {
		for i := 0; i < seeds; i++ {
			if o := os.Getenv("VERIF_SELFTEST_ONLY"); o != "" && o != fmt.Sprintf("%s:%d", p, i) {
				continue
			}
			jobs = append(jobs, job{p, i})
		}
	}
	var mu sync.Mutex
	var wg sync.WaitGroup
	bad, total, execs := 0, 0, 0
	next := 0
	for w := 0; w < par; w++ {
		wg.Add(1)
		go func(w int) {
			defer wg.Done()
			for {
				mu.Lock()
				if next >= len(jobs) {
					mu.Unlock()
					return
				}
				j := jobs[next]
				next++
				mu.Unlock()
				s := generate(j.prop, corp, mix(seed^0x5e1f, uint64(j.i)))
				var ref string
				var tapes *scn.Result
				var diffs []string
				n := 0
				for _, pipe := range []bool{false, true} {
					for _, procs := range []int{1, 4, 16} {
						for rep := 0; rep < 2; rep++ {
							c := clone(s)
							c.Sched.Pipe = pipe
							ev := filepath.Join(dir, fmt.Sprintf("w%d.events", w))
							r := b.execRun(dir, 100+w, c, execOpts{tape: true, events: ev, procs: procs})
							n++
							if r.infra != "" {
								diffs = append(diffs, fmt.Sprintf("pipe=%v procs=%d rep=%d infra: %s", pipe, procs, rep, r.infra))
								continue
							}
							raw, _ := os.ReadFile(ev)
							sig := r.res.EventHash + "/" + r.res.OutcomeHash + "/" + fmt.Sprint(len(r.res.Violations)) + "/" + fmt.Sprint(strHash(string(raw)))
							if ref == "" {
								ref, tapes = sig, r.res
							} else if sig != ref {
								diffs = append(diffs, fmt.Sprintf("pipe=%v procs=%d rep=%d: %s != %s", pipe, procs, rep, sig, ref))
							}
						}
					}
				}
				// replay from tapes
				if tapes != nil {
					c := clone(s)
					c.Sched.Replay, c.Sched.Tape, c.Sched.Mode, c.Sched.Seed = true, tapes.Tape, 0, 12345
					c.Faults.Replay, c.Faults.Tape, c.Faults.Seed = true, tapes.FaultTape, 999
					evr := filepath.Join(dir, fmt.Sprintf("w%d.replay.events", w))
					r := b.execRun(dir, 100+w, c, execOpts{events: evr})
					n++
					if os.Getenv("VERIF_SELFTEST_ONLY") != "" {
						a, _ := os.ReadFile(filepath.Join(dir, fmt.Sprintf("w%d.events", w)))
						os.WriteFile("/var/tmp/st_gen.events", a, 0644)
						a, _ = os.ReadFile(evr)
						os.WriteFile("/var/tmp/st_replay.events", a, 0644)
					}
					if r.infra != "" {
						diffs = append(diffs, "replay infra: "+r.infra)
					} else if r.res.EventHash != tapes.EventHash || r.res.OutcomeHash != tapes.OutcomeHash {
						diffs = append(diffs, fmt.Sprintf("replay from tapes diverged: %s vs %s (kind %s, scheduler %s, %d decisions, %d steps vs %d)", r.res.EventHash, tapes.EventHash, s.Kind, modeNames[s.Sched.Mode&3], len(tapes.Tape), r.res.Steps, tapes.Steps))
					}
				}
				mu.Lock()
				total++
				execs += n
				if len(diffs) > 0 {
					bad++
					fmt.Printf("NONDETERMINISM %s seed-index %d: %s\n", j.prop, j.i, strings.Join(diffs, "; "))
				}
				mu.Unlock()
			}
		}(w)
	}
	wg.Wait()
	fmt.Printf("selftest: %d scenarios x (2 hand-over modes x 3 GOMAXPROCS values x 2 repetitions + 1 tape replay) = %d executions, %d scenarios diverged\n", total, execs, bad)
	if bad > 0 {
		return 2
	}
	return 0
}

func strHash(s string) uint64 {
	h := uint64(0xcbf29ce484222325)
	for i := 0; i < len(s); i++ {
		h = (h ^ uint64(s[i])) * 0x100000001b3
	}
	return h
}
