package main

import (
	"encoding/json"
	"fmt"
	"os"
	"path/filepath"
	"sort"
)

var rules = map[string]string{
	"C11": "Each case is one simulated run drawn from mix(VERIF_SEED,i), of three kinds. A: 2-8 client tasks, each 1-3 pipelines parse -> 0-6 operations (print, print inside PHP state, dump x4 option sets, traverse with a recording visitor, traverse with visitor.Null, resolve names); B: the same pipelines pushed through a model of the CLI topology (producer, K parser workers, one consumer, bounded queues) so that trees cross tasks; C: the real cmd/php-parser program (its main, worker goroutines, channels, WaitGroup, flags) over 1-12 real files in a scratch directory. Inputs are composed from the corpus (mixed, all from one feature class, a family of variants of one file, a crowd of 12-40 tiny malformed files under one grammar, or a storm of faulted operations on deeply nested files), with versions 5.0-7.4 or nil, callback on/off, shared or private version pointer, block-size knob, forced-GC steps; in 30% of A/B runs a quarter of the operations are cut short by a writer fault or visitor abort; in 30% of A/B runs some callers keep one statement and drop the root; in 20% of A/B runs some operations are applied to a statement or to an inner vertex of the tree (by pre-order number); in 15% of C runs an I/O error (read error, write error, torn write) strikes one of the program's files and the relaxed oracle of DESIGN.md section 13 applies. A seeded scheduler (run-to-completion / random preemption / PCT / site-biased) decides every task switch at instrumented yield points. Every run is followed by the same work alone in the same process and, if nothing was wrong, by all its pipelines in reverse order in one fresh process and by up to 6 of its pipelines (files) each alone in a fresh process. Non-trivial: >=2 pipelines (files) and >=1 preemptive switch to another task inside the code under test. Distinct: distinct (scenario hash, event-log hash) pairs among the non-trivial runs.",
	"C13": "Each case is one simulated run: one corpus-composed input, a reference table (every operation kind - print, print inside PHP state, dump x4 option sets, traverse with a recording visitor, traverse with visitor.Null, resolve - on its own freshly parsed tree, computed twice) and a drawn history of 1-24 such operations on ONE tree (in a third of the runs some of them applied to a single statement or to an inner vertex of the tree - an expression, a name, a class member, chosen by pre-order number - with their own reference entries); odd seeds additionally inject writer faults (error, sticky error, short write, panic at a drawn Write call), visitor aborts and forced GC, a fifth of them as scans that cut one operation kind short at consecutive positions. After every operation: output equals the table (a faulted operation: accepted bytes are a prefix), fingerprint of the tree's exported fields and of the source buffer unchanged. One table entry per run is recomputed alone in a fresh process. Non-trivial: >=2 operations executed and at least one operation follows an operation of a different kind. Distinct: distinct (scenario hash, event-log hash) pairs among the non-trivial runs.",
	"C18": "Each case is one simulated run, of two kinds. pools: 1-4 tasks each owning 1-3 token/position pools with a drawn block size (1-64 dense, and 100..4096), executing drawn get/rr/write/verify/gc/renew operations (rr: one object from every pool of the task in turn, as the lexer uses its pools; some tasks own three or four pools of one type; in 15% of the tasks the operations are executed by two goroutines taking turns under a mutex, so that pools are created by one goroutine and used by another; renew: the pool is dropped, its objects kept, a new pool of the same size takes its place; 5% long runs: one task, block sizes at 15/16/17-bit limits with a request count beyond the block, or ~140,000 requests at a small size; rarely very long runs: more than a million requests from one pool, or a block size of 200,001 ... 2^20+1 with a request count beyond it) against a reference model of every object ever returned (non-nil, never returned twice by any pool of the run, a stamp written through one object never changes another), tasks interleaved at yield points inside Pool.Get and NewPool; the race detector blinded to hand-overs reports memory shared between two tasks' pools. parse: 1-3 tasks parse corpus inputs with DefaultBlockSize set to a drawn value (1..1025), compared with the same parse at the compiled-in size. Non-trivial: at least one block boundary was crossed. Distinct: distinct (scenario hash, event-log hash) pairs among the non-trivial runs.",
}

func sortedInts(m map[int]bool) []int {
	var out []int
	for k := range m {
		out = append(out, k)
	}
	sort.Ints(out)
	return out
}

func writeEvidenceFile(b *build, a *agg, prop, tier string, seed uint64, violations int, cfg tierCfg) error {
	// function-level reach: how many repository functions executed under simulation
	fnAll, fnHit := map[string]bool{}, map[string]bool{}
	switchFn := map[string]int{}
	for _, s := range b.instr.Sites {
		fnAll[s.File+" "+s.Func] = true
		if a.sitesHit[s.ID] {
			fnHit[s.File+" "+s.Func] = true
		}
		if a.sitesSwitch[s.ID] {
			switchFn[s.File]++
		}
	}
	// fault kinds actually fired (not merely configured), per kind
	fired := map[string]int64{}
	for k, v := range a.faults {
		fired[k] = v
	}
	for _, k := range []string{"writer_error_fired", "writer_short_write_fired", "writer_panic_fired", "visitor_abort_fired",
		"operation_aborted_by_writer_fault_or_visitor_abort", "parse_aborted_by_panicking_error_callback", "syncpool_miss", "syncpool_drop"} {
		fired[k] = a.probes[k]
	}
	fired["forced_yield_on_contended_lock_or_full_queue"] = a.forced
	fired["preemption_at_yield_point"] = a.preempt
	knobRuns := int64(0)
	for k, v := range a.knobs {
		if k != "0" {
			knobRuns += int64(v)
		}
	}
	fired["runs_with_block_size_knob_changed"] = knobRuns
	if len(a.samples) == 0 {
		a.samples = append(a.samples, "no non-trivial run in this batch")
	}
	cov := map[string]interface{}{
		"evaluations":         a.runs,
		"distinct_nontrivial": len(a.distinct),
		"rule":                rules[prop],
		"samples":             a.samples,
		"nontrivial_runs":     a.nontrivial,
		"seeds":               map[string]interface{}{"base": seed, "count": a.runs, "derivation": "run i uses splitmix(VERIF_SEED ^ (i+1)*0xd1342543de82ef95); scenario, schedule and fault streams are derived from it"},
		"runs_per_hour":       int(float64(a.runs) / a.wall.Hours()),
		"simulated_time": map[string]interface{}{"unit": "yield points executed; " + clockState(b), "total_steps_concurrent_phase": a.steps,
			"total_steps_reference_phases": a.refSteps, "max_steps_one_run": a.maxSt},
		"preemptions":                      a.preempt,
		"task_switches":                    a.switches,
		"forced_yields_on_contended_locks": a.forced,
		"distinct_interleavings":           map[string]interface{}{"measure": "distinct hashes of the full decision log (step, site, from, to, kind)", "count": len(a.interleavings)},
		"faults_fired":                     fired,
		"faults_not_applicable":            "message loss/duplication/reordering, partitions, allocation failure: the code under test has no network, reader or recoverable allocation seam (DESIGN.md section 1). Clock speed and clock jumps are injected only when the tree under test waits on the clock (" + clockState(b) + "). Disk faults exist only for cmd/php-parser (C11 scenario C: read error, write error, torn write per file, DESIGN.md section 13); the library does no I/O besides the io.Writer it is handed, whose faults are injected.",
		"reach_probes":                     a.probes,
		"schedulers_used":                  a.modes,
		"scenario_kinds":                   a.kinds,
		"block_size_knob_values":           a.knobs,
		"input_themes":                     a.themes,
		"yield_sites":                      map[string]interface{}{"total": len(b.instr.Sites), "executed": len(a.sitesHit), "with_a_task_switch": len(a.sitesSwitch), "functions_total": len(fnAll), "functions_executed": len(fnHit), "switches_by_file": switchFn},
		"race_detector_reports":            a.races,
		"operations_checked":               a.ops,
		"pipelines_compared_with_isolated_fresh_process_reference": a.iso,
		"determinism_probe":               map[string]interface{}{"pairs": a.probePairs, "diverged": a.probeDiv},
		"infrastructure_failures":         len(a.infra),
		"slowest_run_wall_s":              a.maxRunWall.Seconds(),
		"runs_retried_after_wall_timeout": a.retried,
		"real_components":                 []string{"pkg/parser", "internal/scanner", "internal/php5", "internal/php7", "internal/position", "pkg/token", "pkg/position", "pkg/ast", "pkg/version", "pkg/errors", "pkg/conf", "pkg/visitor/printer", "pkg/visitor/dumper", "pkg/visitor/traverser", "pkg/visitor/nsresolver (all rebuilt from /repo's working tree, instrumented, -race)"},
		"stub_components":                 stubs(prop),
		"cli_real_main":                   cliState(b),
		"block_size_knob":                 knobState(b),
		"instrumentation":                 map[string]interface{}{"cli_redirected": b.instr.CLI, "knob": b.instr.Knob, "sync_rewritten": b.instr.SyncRewrite, "go_statements": b.instr.GoStmts, "channel_ops_wrapped": len(b.instr.ChanWrapped), "not_wrappable": b.instr.ChanOps, "library_files_using_sync": b.instr.SyncLib, "default_block_size_used_in_expressions": b.instr.KnobEntangled, "newpool_reports_requested_size": b.instr.NewPoolNoted},
		"budget":                          map[string]interface{}{"runs_requested": cfg.runs, "wall_budget_s": cfg.budget.Seconds()},
		"repo_head":                       b.head,
		"repo_worktree_diff_hash":         b.diff,
	}
	ev := map[string]interface{}{
		"property_id": prop,
		"tier":        tier,
		"seed":        int64(seed & 0x7fffffffffffffff),
		"level":       "exploration",
		"coverage":    cov,
		"assumptions": []string{
			"sampling, not proof: only the schedules, fault placements and inputs drawn from the seed were explored",
			"the conflict oracle is Go's race detector with all inter-task happens-before edges hidden; it remembers a bounded history per goroutine, so a conflicting pair is reported only in runs where the earlier access is recent enough in its task's history (DESIGN.md section 2.3)",
			"preemption granularity is a statement (an inserted yield point), not a machine instruction",
			"harness code (fingerprint walker, recording visitor, reference model, scheduler runtime) is trusted",
		},
		"wall_s":     a.wall.Seconds(),
		"violations": violations,
	}
	raw, err := json.MarshalIndent(ev, "", " ")
	if err != nil {
		return err
	}
	dir := filepath.Join(verifDir(), "evidence")
	os.MkdirAll(dir, 0755)
	path := filepath.Join(dir, prop+".json")
	if err := os.WriteFile(path, raw, 0644); err != nil {
		return err
	}
	fmt.Println("evidence written to", path)
	return nil
}

func stubs(prop string) []string {
	switch prop {
	case "C11":
		return []string{"cmd/php-parser: scenario C runs its real main function, worker goroutines, channels and WaitGroup; only process-global facilities are redirected (flag -> per-invocation FlagSet, os.Exit -> halt of the simulated program, os.Stdout/Stderr, fmt.Print*, log.* -> captured streams, runtime.GOMAXPROCS -> worker count of the scenario); scenario B additionally models the same topology in the harness", "Go scheduler: replaced by the run-token scheduler for simulated tasks", "file system: real files in a per-run scratch directory; ReadFile/WriteFile of the program go through a shim that injects per-file read errors, write errors and torn writes (DESIGN.md section 13)", "clock: package time of files that touch the clock is the simulated clock (DESIGN.md section 14)", "github.com/pkg/profile: linked, never started (profiling flags are never drawn)"}
	case "C13":
		return []string{"io.Writer: simulated, fault-injecting", "Go scheduler: one simulated task"}
	}
	return []string{"Go scheduler: replaced by the run-token scheduler for simulated tasks"}
}

func cliState(b *build) string {
	if b.cliSkipped != "" {
		return "skipped(" + b.cliSkipped + ")"
	}
	return "simulated (scenario C)"
}

func clockState(b *build) string {
	switch {
	case b.clockNote != "":
		return "simulated clock unavailable (" + b.clockNote + ")"
	case b.instr.ClockWaits > 0:
		return fmt.Sprintf("the tree under test waits on the clock at %d call sites: package time redirected to the simulated clock in %v, per-run clock speed and injected clock jumps", b.instr.ClockWaits, b.instr.TimeRewrite)
	case len(b.instr.TimeRewrite) > 0:
		return fmt.Sprintf("the tree under test only reads the clock (%v, redirected to the simulated clock) and never waits on it: no clock speed or jump is drawn", b.instr.TimeRewrite)
	}
	return "the code under test reads no clock"
}

func knobState(b *build) string {
	if b.knobNote != "" {
		return "unavailable (" + b.knobNote + ")"
	}
	return "DefaultBlockSize rewritten const -> var in the scratch copy and set per run"
}
