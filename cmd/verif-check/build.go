package main

import (
	"encoding/json"
	"fmt"
	"os"
	"os/exec"
	"path/filepath"
	"strings"
	"time"
)

// instrSite mirrors verif-instrument's site record.
type instrSite struct {
	ID   int    `json:"id"`
	File string `json:"file"`
	Line int    `json:"line"`
	Func string `json:"func"`
	Kind string `json:"kind"`
	Out  int    `json:"out"`
}

type instrReport struct {
	Sites         []instrSite       `json:"sites"`
	Files         map[string]int    `json:"files"`
	SyncRewrite   []string          `json:"sync_rewritten"`
	GoStmts       []string          `json:"go_stmts"`
	ChanOps       []string          `json:"chan_ops"`
	ChanWrapped   []string          `json:"chan_wrapped"`
	Gosched       []string          `json:"gosched"`
	Knob          map[string]string `json:"knob"`
	Finalizers    []string          `json:"finalizers"`
	Timers        []string          `json:"timers"`
	TimeRewrite   []string          `json:"time_rewritten"`
	UnsafeFiles   []string          `json:"unsafe_files"`
	ClockWaits    int               `json:"clock_waits"`
	CLI           []string          `json:"cli_redirected"`
	CLIMain       bool              `json:"cli_main"`
	SyncLib       int               `json:"sync_lib"`
	KnobEntangled []string          `json:"knob_entangled"`
	NewPoolNoted  []string          `json:"newpool_noted"`
}

type build struct {
	scratch string // removed on exit
	src     string // instrumented copy of the repository
	simnode string
	simref  string // the same harness built WITHOUT -race: isolated references
	instr   instrReport
	wall    time.Duration
	repo    string
	head    string
	diff    string

	knobNote   string // non-empty: why the block-size knob is unavailable
	clockNote  string // non-empty: why the simulated clock is unavailable
	cliSkipped string // non-empty: why scenario C (the real cmd/php-parser) is not simulated
}

func firstLines(s string, n int) string {
	l := strings.Split(strings.TrimSpace(s), "\n")
	if len(l) > n {
		l = l[:n]
	}
	return strings.Join(l, " | ")
}

func goEnv() []string {
	env := os.Environ()
	env = append(env, "GOFLAGS=-mod=mod", "GOPROXY=off", "GOSUMDB=off", "GOTOOLCHAIN=local", "CGO_ENABLED=1")
	return env
}

func run(dir string, env []string, name string, args ...string) (string, error) {
	cmd := exec.Command(name, args...)
	cmd.Dir = dir
	if env != nil {
		cmd.Env = env
	}
	out, err := cmd.CombinedOutput()
	return string(out), err
}

func verifDir() string {
	if d := os.Getenv("VERIF_DIR"); d != "" {
		return d
	}
	exe, err := os.Executable()
	if err == nil {
		d := filepath.Dir(filepath.Dir(exe)) // <verif>/bin/verif-check
		if _, err := os.Stat(filepath.Join(d, "sim", "zzsim")); err == nil {
			return d
		}
	}
	return "/verif"
}

func copyGlob(pattern, dst string) error {
	files, _ := filepath.Glob(pattern)
	if len(files) == 0 {
		return fmt.Errorf("nothing matches %s", pattern)
	}
	if err := os.MkdirAll(dst, 0755); err != nil {
		return err
	}
	for _, f := range files {
		b, err := os.ReadFile(f)
		if err != nil {
			return err
		}
		if err := os.WriteFile(filepath.Join(dst, filepath.Base(f)), b, 0644); err != nil {
			return err
		}
	}
	return nil
}

// buildSimnode copies the repository's working tree to a scratch directory,
// instruments it and builds the race-enabled executor (DESIGN.md §2.1).
func buildSimnode(tag string) (*build, error) {
	t0 := time.Now()
	repo := os.Getenv("VERIF_REPO")
	if repo == "" {
		repo = "/repo"
	}
	base := os.Getenv("VERIF_SCRATCH")
	if base == "" {
		base = "/var/tmp"
	}
	scratch, err := os.MkdirTemp(base, "verif-"+tag+"-")
	if err != nil {
		return nil, err
	}
	b := &build{scratch: scratch, src: filepath.Join(scratch, "src"), simnode: filepath.Join(scratch, "simnode"), repo: repo}
	vd := verifDir()
	h := filepath.Join(scratch, "h")
	attempt := func(extra ...string) error {
		os.RemoveAll(b.src)
		os.RemoveAll(h)
		b.instr = instrReport{}
		if out, err := run("", nil, "rsync", "-a", "--exclude", ".git", "--exclude", "/out", "--exclude", "/TASK.md", repo+"/", b.src+"/"); err != nil {
			return fmt.Errorf("rsync: %v\n%s", err, out)
		}
		if err := copyGlob(filepath.Join(vd, "sim/zzsim/*.go"), filepath.Join(b.src, "pkg/zzsim")); err != nil {
			return err
		}
		if err := copyGlob(filepath.Join(vd, "sim/zzsimsync/*.go"), filepath.Join(b.src, "pkg/zzsimsync")); err != nil {
			return err
		}
		for _, shim := range []string{"zzsimflag", "zzsimos", "zzsimtime"} {
			if err := copyGlob(filepath.Join(vd, "sim", shim, "*.go"), filepath.Join(b.src, "pkg", shim)); err != nil {
				return err
			}
		}
		if err := copyGlob(filepath.Join(vd, "harness/*.go"), filepath.Join(h, "harness")); err != nil {
			return err
		}
		if err := copyGlob(filepath.Join(vd, "scn/*.go"), filepath.Join(h, "scn")); err != nil {
			return err
		}
		instrument := filepath.Join(vd, "bin/verif-instrument")
		if _, err := os.Stat(instrument); err != nil {
			if out, err := run(vd, goEnv(), "go", "build", "-o", "bin/verif-instrument", "./cmd/verif-instrument"); err != nil {
				return fmt.Errorf("building verif-instrument: %v\n%s", err, out)
			}
		}
		rep := filepath.Join(scratch, "instr.json")
		if out, err := run("", nil, instrument, append([]string{"-root", b.src, "-report", rep, "-gen", filepath.Join(h, "harness")}, extra...)...); err != nil {
			return fmt.Errorf("instrument: %v\n%s", err, out)
		}
		raw, err := os.ReadFile(rep)
		if err != nil {
			return err
		}
		if err := json.Unmarshal(raw, &b.instr); err != nil {
			return err
		}
		gomod := "module verif\n\ngo 1.21\n\nrequire github.com/z7zmey/php-parser v0.0.0\n\nreplace github.com/z7zmey/php-parser => ../src\n"
		if err := os.WriteFile(filepath.Join(h, "go.mod"), []byte(gomod), 0644); err != nil {
			return err
		}
		if sum, err := os.ReadFile(filepath.Join(repo, "go.sum")); err == nil {
			os.WriteFile(filepath.Join(h, "go.sum"), sum, 0644)
		}
		// with the real cmd/php-parser linked in (scenario C) if its instrumented
		// copy builds; otherwise without it, and scenario C is reported as skipped
		tags := "zzcli"
		b.cliSkipped = ""
		if !b.instr.CLIMain {
			tags, b.cliSkipped = "", "cmd/php-parser has no func main"
		}
		for _, c := range b.instr.ChanOps {
			if strings.HasPrefix(c, "cmd/") && tags != "" {
				tags, b.cliSkipped = "", "cmd/php-parser uses a channel construct the simulator cannot own: "+c
			}
		}
		for _, c := range b.instr.Timers {
			if strings.HasPrefix(c, "cmd/") && tags != "" {
				tags, b.cliSkipped = "", "cmd/php-parser waits on the real clock, which the simulator does not own: "+c
			}
		}
		out, err := run(h, goEnv(), "go", "build", "-race", "-tags", tags, "-o", b.simnode, "./harness")
		if err != nil && tags != "" {
			tags, b.cliSkipped = "", "the instrumented cmd/php-parser does not build: "+firstLines(out, 6)
			out, err = run(h, goEnv(), "go", "build", "-race", "-tags", tags, "-o", b.simnode, "./harness")
		}
		if err != nil {
			return fmt.Errorf("go build -race of the instrumented tree failed: %v\n%s", err, out)
		}
		b.simref = filepath.Join(scratch, "simref")
		if out, err := run(h, goEnv(), "go", "build", "-tags", tags, "-o", b.simref, "./harness"); err != nil {
			return fmt.Errorf("go build of the instrumented tree (plain) failed: %v\n%s", err, out)
		}
		return nil
	}
	if err := attempt(); err != nil {
		// a change may use DefaultBlockSize where only a constant is allowed: the
		// knob (const -> var) is then given up rather than the whole check
		first := err
		if err2 := attempt("-noknob"); err2 == nil {
			b.knobNote = "block-size knob given up, the tree does not build with DefaultBlockSize as a variable: " + firstLines(first.Error(), 4)
		} else if err3 := attempt("-notime"); err3 == nil {
			// the tree uses a part of package time the simulated clock's shim lacks
			b.clockNote = "simulated clock given up, the tree does not build against the clock shim: " + firstLines(first.Error(), 4)
		} else if err4 := attempt("-noknob", "-notime"); err4 == nil {
			b.knobNote = "block-size knob given up: " + firstLines(err3.Error(), 4)
			b.clockNote = "simulated clock given up: " + firstLines(err2.Error(), 4)
		} else {
			return b, fmt.Errorf("%v\n(and without the block-size knob: %v)", first, err2)
		}
	}
	if out, err := run(repo, nil, "git", "rev-parse", "HEAD"); err == nil {
		b.head = strings.TrimSpace(out)
		if out, err := run(repo, nil, "sh", "-c", "git diff HEAD 2>/dev/null | sha1sum | cut -c1-12"); err == nil {
			b.diff = strings.TrimSpace(out)
		}
	} else {
		b.head = "(not a git checkout: " + repo + ")"
	}
	b.wall = time.Since(t0)
	return b, nil
}

func (b *build) cleanup() {
	if b != nil && b.scratch != "" && os.Getenv("VERIF_KEEP") == "" {
		os.RemoveAll(b.scratch)
	}
}

// siteInfo describes a yield site for traces.
func (b *build) siteInfo(id int) string {
	switch id {
	case -1:
		return "task end"
	case -2:
		return "blocked on a simulated primitive"
	case -3:
		return "start"
	case -4:
		return "Gosched"
	}
	if id >= 1 && id <= len(b.instr.Sites) {
		s := b.instr.Sites[id-1]
		return fmt.Sprintf("%s:%d %s", s.File, s.Line, s.Func)
	}
	return fmt.Sprintf("site %d", id)
}

// origLine maps a line of an instrumented file back to (about) the original line.
func (b *build) origLine(rel string, line int) int {
	best := -1
	for i := range b.instr.Sites {
		s := &b.instr.Sites[i]
		if s.File == rel && s.Out > 0 && s.Out <= line && (best < 0 || s.Out > b.instr.Sites[best].Out) {
			best = i
		}
	}
	if best < 0 {
		return line
	}
	return b.instr.Sites[best].Line
}
