package main

import (
	"bytes"
	"encoding/json"
	"os"
	"path/filepath"
	"sort"
	"strings"

	"verif/scn"
)

// ---- the single source of randomness: splitmix64 streams derived from VERIF_SEED

type rng struct{ s uint64 }

func (r *rng) next() uint64 {
	r.s += 0x9e3779b97f4a7c15
	z := r.s
	z = (z ^ (z >> 30)) * 0xbf58476d1ce4e5b9
	z = (z ^ (z >> 27)) * 0x94d049bb133111eb
	return z ^ (z >> 31)
}
func (r *rng) n(n int) int {
	if n <= 0 {
		return 0
	}
	return int(r.next() % uint64(n))
}
func (r *rng) chance(pct int) bool { return r.n(100) < pct }
func (r *rng) pick(xs []int) int   { return xs[r.n(len(xs))] }
func (r *rng) picks(xs []string) string {
	return xs[r.n(len(xs))]
}

func mix(seed uint64, i uint64) uint64 {
	r := rng{seed ^ (i+1)*0xd1342543de82ef95}
	r.next()
	return r.next()
}

// ---- corpus

type corpusFile struct {
	name string
	src  []byte
	php5 bool
	bad  bool // malformed on purpose
}

type corpus struct {
	all, small, large []corpusFile
	clean             []corpusFile            // small well-formed files on which the pinned CLI ends normally (corpus/clean.json)
	cleanNames        map[string]bool
	eof               []corpusFile            // e_*: one tiny end-of-input truncation per lexer state, drawn rarely
	deep              []corpusFile            // x_deep_*: deeply nested / very long chains
	vsplit            []vsplitItem            // files whose parse depends on the version (corpus/vsplit.json)
	vsplitInner       []vsplitItem            // ... with a boundary between two 7.x versions
	themes            map[string][]corpusFile // feature class -> files (swarm: a run may draw from one class only)
	themeNames        []string
}

// feature classes by content: a themed run keeps all its concurrent tasks in
// the same region of the code (the same lexer states, the same grammar
// actions, the same resolver branches), which is where sharing goes wrong
var themeMarks = []struct{ name, mark string }{
	{"heredoc", "<<<"}, {"namespace", "namespace"}, {"use", "use "}, {"html", "?>"}, {"class", "class "},
	{"trait", "trait"}, {"function", "function"}, {"string", "\"$"}, {"comment", "/*"}, {"static", "static"}, {"array", "["},
}

type vsplitItem struct {
	file    corpusFile
	classes [][]string
}

func (c *corpus) loadVsplit(dir string) {
	raw, err := os.ReadFile(filepath.Join(dir, "vsplit.json"))
	if err != nil {
		return
	}
	var list []struct {
		File    string     `json:"file"`
		Classes [][]string `json:"classes"`
	}
	if json.Unmarshal(raw, &list) != nil {
		return
	}
	byName := map[string]corpusFile{}
	for _, f := range c.all {
		byName[f.name] = f
	}
	for _, e := range list {
		f, ok := byName[e.File]
		if !ok || len(e.Classes) < 2 {
			continue
		}
		it := vsplitItem{file: f, classes: e.Classes}
		c.vsplit = append(c.vsplit, it)
		sevens := 0
		for _, cl := range e.Classes {
			if strings.HasPrefix(cl[0], "7") {
				sevens++
			}
		}
		if sevens >= 2 {
			c.vsplitInner = append(c.vsplitInner, it)
		}
	}
}

// loadClean narrows the list of well-formed files to those on which the pinned
// command-line program is known to end normally (corpus/clean.json, computed by
// `verif-check cliclean`).
func (c *corpus) loadClean(dir string) {
	raw, err := os.ReadFile(filepath.Join(dir, "clean.json"))
	if err != nil {
		return
	}
	var names []string
	if json.Unmarshal(raw, &names) != nil || len(names) < 20 {
		return
	}
	okName := map[string]bool{}
	for _, n := range names {
		okName[n] = true
	}
	var keep []corpusFile
	for _, f := range c.clean {
		if okName[f.name] {
			keep = append(keep, f)
		}
	}
	if len(keep) >= 20 {
		c.clean = keep
	}
	c.cleanNames = okName
}

func loadCorpus(dir string) (*corpus, error) {
	names, err := filepath.Glob(filepath.Join(dir, "*.php"))
	if err != nil {
		return nil, err
	}
	sort.Strings(names)
	c := &corpus{themes: map[string][]corpusFile{}}
	for _, n := range names {
		b, err := os.ReadFile(n)
		if err != nil {
			return nil, err
		}
		base := filepath.Base(n)
		f := corpusFile{name: base, src: b, php5: strings.Contains(base, "php5"), bad: strings.HasPrefix(base, "m_") || strings.HasPrefix(base, "e_m_")}
		c.all = append(c.all, f)
		if strings.HasPrefix(base, "x_deep") {
			c.deep = append(c.deep, f)
		}
		if strings.HasPrefix(base, "e_") {
			f.bad = true
			c.eof = append(c.eof, f)
			continue
		}
		if len(b) <= 2048 {
			c.small = append(c.small, f)
			if !f.bad && !strings.HasPrefix(base, "x_") {
				c.clean = append(c.clean, f)
			}
		} else {
			c.large = append(c.large, f)
		}
		if len(b) <= 8192 {
			for _, t := range themeMarks {
				if bytes.Contains(b, []byte(t.mark)) {
					c.themes[t.name] = append(c.themes[t.name], f)
				}
			}
			if f.bad {
				c.themes["malformed"] = append(c.themes["malformed"], f)
			}
		}
	}
	for n, fs := range c.themes {
		if len(fs) >= 4 {
			c.themeNames = append(c.themeNames, n)
		}
	}
	sort.Strings(c.themeNames)
	if len(c.small) == 0 || len(c.large) == 0 {
		return nil, os.ErrNotExist
	}
	c.loadVsplit(dir)
	c.loadClean(dir)
	return c, nil
}

var versions = []string{"5.0", "5.3", "5.6", "7.0", "7.1", "7.2", "7.3", "7.4", ""}

// input composes one input from the corpus.
func (c *corpus) input(r *rng, pLarge int) scn.Input { return c.inputT(r, pLarge, "") }

// inputT draws from one feature class when theme is set.
func (c *corpus) inputT(r *rng, pLarge int, theme string) scn.Input {
	var f corpusFile
	if fs := c.themes[theme]; theme != "" && len(fs) > 0 && r.chance(90) {
		f = fs[r.n(len(fs))]
	} else if len(c.eof) > 0 && r.chance(4) {
		f = c.eof[r.n(len(c.eof))]
	} else if r.chance(pLarge) {
		f = c.large[r.n(len(c.large))]
	} else {
		f = c.small[r.n(len(c.small))]
	}
	in := scn.Input{Name: f.name, Src: append([]byte(nil), f.src...)}
	if r.chance(20) { // concatenate 1-3 more small snippets
		for k := 1 + r.n(3); k > 0; k-- {
			g := c.small[r.n(len(c.small))]
			in.Src = append(append(in.Src, '\n'), g.src...)
			in.Name += "+" + g.name
		}
	}
	switch r.n(12) {
	case 0:
		in.Src = bytes.ReplaceAll(in.Src, []byte("\n"), []byte("\r\n"))
		in.Name += "[crlf]"
	case 1:
		in.Src = bytes.ReplaceAll(in.Src, []byte("\n"), []byte("\r"))
		in.Name += "[cr]"
	case 2: // truncate somewhere: errors, recovery, partial trees
		if len(in.Src) > 4 {
			in.Src = in.Src[:2+r.n(len(in.Src)-2)]
			in.Name += "[cut]"
		}
	case 3: // a tail the grammars cannot recover from: errors reported, then no tree at all
		in.Src = append(in.Src, fatalTails[r.n(len(fatalTails))]...)
		in.Name += "[fatal]"
	case 4: // keywords in another letter case (they are case-insensitive)
		in.Src = kwCase(r, in.Src)
		in.Name += "[kwcase]"
	}
	if f.php5 && r.chance(60) {
		in.Version = []string{"5.0", "5.3", "5.6"}[r.n(3)]
	} else {
		in.Version = versions[r.n(len(versions))]
	}
	in.Callback = r.chance(80)
	if in.Callback && (f.bad || strings.HasSuffix(in.Name, "[cut]") || strings.HasSuffix(in.Name, "[fatal]")) && r.chance(8) {
		in.AbortAt = 1 + r.n(3) // fault: the caller's error callback panics (the pipeline recovers)
	}
	return in
}

// inputClean draws a small well-formed file, at most with another line
// terminator or keyword case: the program under simulation (which stops on the
// first file whose parse yields no tree) then gets through all of its files.
func (c *corpus) inputClean(r *rng, maxLen int) scn.Input {
	f := c.clean[r.n(len(c.clean))]
	for k := 0; k < 8 && len(f.src) > maxLen; k++ {
		f = c.clean[r.n(len(c.clean))]
	}
	in := scn.Input{Name: f.name, Src: append([]byte(nil), f.src...), Callback: true}
	switch r.n(10) {
	case 0:
		in.Src = bytes.ReplaceAll(in.Src, []byte("\n"), []byte("\r\n"))
		in.Name += "[crlf]"
	case 1:
		in.Src = kwCase(r, in.Src)
		in.Name += "[kwcase]"
	}
	return in
}

// bigClean composes a large well-formed input (50-90 kB): the body of a
// well-formed file that is PHP code throughout, repeated.
func (c *corpus) bigClean(r *rng) scn.Input {
	var cands []corpusFile
	for _, f := range c.all {
		if !f.bad && (c.cleanNames == nil || c.cleanNames[f.name]) && !strings.HasPrefix(f.name, "x_") && !strings.HasPrefix(f.name, "e_") && len(f.src) >= 1200 && bytes.HasPrefix(f.src, []byte("<?php")) && !bytes.Contains(f.src, []byte("?>")) && !bytes.Contains(f.src, []byte("__halt_compiler")) && !bytes.Contains(f.src, []byte("<<<")) && !bytes.Contains(f.src, []byte("namespace")) {
			cands = append(cands, f)
		}
	}
	if len(cands) == 0 {
		return c.input(r, 100)
	}
	f := cands[r.n(len(cands))]
	body := f.src[5:]
	src := []byte("<?php")
	for want := 50000 + r.n(40000); len(src) < want; {
		src = append(append(src, body...), '\n')
	}
	return scn.Input{Name: f.name + "[repeated]", Src: src, Callback: true}
}

var fatalTails = []string{"\nclass {", "\ninterface {", "\n$a = function (", "\n}}}", "\nabstract final", "\ntrait T extends U { } class {"}

var c11Ops = []string{"print", "dump", "dumpT", "dumpP", "dumpTP", "traverse", "resolve", "resolve", "print", "printP", "null"}
var siteClassNames = []string{"cli", "pool", "lexer-new", "lexer-helpers", "newlines", "scanner", "php7-actions", "php5-actions", "parser-glue", "position-builder", "printer", "dumper", "resolver", "traverser", "version", "errors"}
var knobs = []int{0, 0, 0, 0, 1, 2, 3, 5, 8, 64}

// syncLib is set when library code of the tree under test uses sync or
// sync/atomic: a quarter of the multi-task runs then use the site-biased
// scheduler on class "sync" (preemption right after a release and right
// before an acquisition, where check-then-act sequences break).
var syncLib = false

func (r *rng) schedule(est int64, tasks int) scn.Sched {
	s := scn.Sched{Seed: r.next()}
	if syncLib && tasks > 1 && r.chance(25) {
		s.Mode = 3
		s.SiteClass = "sync"
		s.Mean = uint64([]int{1, 2, 3, 5, 10, 30}[r.n(6)])
		return s
	}
	switch x := r.n(100); {
	case tasks <= 1 || x < 15:
		s.Mode = 0
	case x < 60:
		s.Mode = 1
		s.Mean = uint64([]int{3, 10, 30, 100, 300, 1000, 3000, 10000}[r.n(8)])
	case x < 80:
		s.Mode = 2
		s.Depth = 1 + r.n(3)
		s.Horizon = est
	default:
		s.Mode = 3
		s.SiteClass = siteClassNames[r.n(len(siteClassNames))]
		s.Mean = uint64([]int{1, 2, 5, 20, 100}[r.n(5)])
	}
	return s
}

func estSteps(inputs []scn.Input, tasks []scn.Task) int64 {
	var est int64
	for _, t := range tasks {
		for _, p := range t.Pipelines {
			est += int64(100 * len(inputs[p.Input].Src) * (2 + len(p.Ops)) / 2)
		}
	}
	if est < 1000 {
		est = 1000
	}
	return est
}

// clockUsed is set when the tree under test waits on the clock (the
// instrumenter found Sleep / After / AfterFunc / NewTimer / NewTicker / Tick
// call sites): runs then draw a clock speed and injected clock jumps.
var clockUsed = false

var clockTicks = []int64{0, 0, 1, 100, 10000, 1000000}
var clockJumpBy = []int64{1e6, 1e9, 60e9, 3600e9}

// clock draws the per-run clock speed and jump faults (nothing, and no draw from
// the stream, when the tree does not wait on the clock).
func (r *rng) clock(s *scn.Scenario, est int64) {
	if !clockUsed {
		return
	}
	s.Sched.ClockTick = clockTicks[r.n(len(clockTicks))]
	if r.chance(30) {
		for k := 1 + r.n(2); k > 0; k-- {
			s.Faults.ClockJumps = append(s.Faults.ClockJumps, [2]int64{int64(r.n(int(est) + 1)), clockJumpBy[r.n(len(clockJumpBy))]})
		}
		sort.Slice(s.Faults.ClockJumps, func(i, j int) bool { return s.Faults.ClockJumps[i][0] < s.Faults.ClockJumps[j][0] })
	}
}

// stalls draws stall faults: one task (rarely two) that is passed over by the
// scheduler for a long stretch of the run while anybody else can run.
func (r *rng) stalls(est int64, tasks int) [][3]int64 {
	var out [][3]int64
	if tasks < 2 || !r.chance(25) {
		return nil
	}
	for k := 1 + r.n(4)/3; k > 0; k-- {
		from := int64(r.n(int(est/2) + 1))
		if r.chance(40) {
			from = 0
		}
		length := est/8 + int64(r.n(int(est)+1))
		out = append(out, [3]int64{int64(r.n(tasks)), from, from + length})
	}
	return out
}

func (r *rng) gcSteps(est int64) []int64 {
	var out []int64
	if r.chance(35) {
		for k := 1 + r.n(3); k > 0; k-- {
			out = append(out, int64(r.n(int(est)+1)))
		}
		sort.Slice(out, func(i, j int) bool { return out[i] < out[j] })
	}
	return out
}

// cliEnabled is cleared when the instrumented cmd/php-parser could not be
// built: scenario C is then not generated.
// deepTier is set for the thorough tier: a third of its runs use wider bounds
// (more tasks, files, operations, objects, larger inputs).
var deepTier = false

func (r *rng) deep() bool { return deepTier && r.chance(33) }

var cliEnabled = true

// knobEnabled is cleared when DefaultBlockSize could not be made a variable in
// this tree: the C18 "parse" run kind is then not generated.
var knobEnabled = true

// knobEntangled: the tree computes with DefaultBlockSize; only larger powers of
// two are used as knob values then.
var knobEntangled = false
var entangledKnobs = []int{64, 128, 256, 512, 2048}

func (r *rng) knob(from []int) int {
	k := from[r.n(len(from))]
	if knobEntangled && k != 0 {
		k = entangledKnobs[r.n(len(entangledKnobs))]
	}
	return k
}

var cliFlagSets = [][]string{{"-pb"}, {"-d"}, {"-r"}, {"-e"}, {"-p", "-e"}, {"-d", "-r"}, {"-pb", "-d"}, {"-p", "-e", "-r", "-d"}, {"-pb", "-e", "-r"}, {"-p"}, {}}
var cliVersions = []string{"", "", "", "7.4", "7.0", "5.6", "7.2"}

// genC11CLI: the real command-line program over a small tree of files.
func genC11CLI(c *corpus, r *rng, seed uint64) *scn.Scenario {
	s := &scn.Scenario{Prop: "C11", RunSeed: seed, Kind: "C"}
	deep := r.deep()
	nf := r.pick([]int{1, 2, 2, 3, 3, 4, 5, 6, 8, 12})
	pLarge := r.pick([]int{0, 0, 0, 3, 10})
	if deep {
		nf = 8 + r.n(17)
		pLarge = r.pick([]int{0, 5, 15})
	}
	split := r.chance(30)
	theme := ""
	if r.chance(35) && len(c.themeNames) > 0 {
		theme = c.themeNames[r.n(len(c.themeNames))]
		s.Theme = theme
	}
	// swarm: in half of the runs every file is well-formed, so that the program
	// gets through all of them (the pinned program stops at the first file whose
	// parse yields no tree, and little can be compared then)
	clean := r.chance(50) && len(c.clean) > 0
	// swarm (rare, heavy): very many tiny files behind one large one - more
	// results in flight than any fixed-size table, ring or channel of the
	// program was sized for, and one slow file overtaken by all the others
	many := len(c.clean) > 0 && ((deep && r.chance(6)) || (!deep && r.chance(1)))
	if many {
		nf, clean, split, theme = 1030+r.n(150), true, false, ""
		s.Theme = "many-files"
	}
	for i := 0; i < nf; i++ {
		var in scn.Input
		switch {
		case many && i == 0:
			in = c.bigClean(r) // the first file in walk order is a large well-formed one
		case many:
			in = c.inputClean(r, 120)
		case i > 0 && r.chance(10):
			in = s.Inputs[r.n(i)] // the same content under another name
			in.Src = append([]byte(nil), in.Src...)
		case clean:
			in = c.inputClean(r, 2048)
		default:
			in = c.inputT(r, pLarge, theme)
		}
		in.Version, in.Callback = "", true
		dir := ""
		if split {
			dir = "d" + string(rune('0'+r.n(2))) + "/"
		} else if r.chance(25) && !many {
			dir = "sub/"
		}
		in.Path = dir + "f" + string(rune('a'+i/10)) + string(rune('0'+i%10)) + ".php"
		if nf > 250 {
			in.Path = "f" + string(rune('0'+i/1000)) + string(rune('0'+i/100%10)) + string(rune('0'+i/10%10)) + string(rune('0'+i%10)) + ".php"
		}
		s.Inputs = append(s.Inputs, in)
	}
	if r.chance(25) {
		// swarm: entries the program walks past without processing them (not
		// *.php), sorted before and after the files it does process
		k := 1 + r.n(2)
		bulk := r.chance(30)
		if bulk {
			k = 8 + r.n(24) // a directory of assets behind the sources: a long tail for the walker
		}
		for ; k > 0; k-- {
			name := []string{"aa_notes.txt", "zz_readme.md", "zz_data.json", "sub/zz_more.txt", "Makefile"}[r.n(5)]
			if bulk {
				name = "zz_assets_" + string(rune('a'+k/10)) + string(rune('0'+k%10)) + ".js"
			}
			if split {
				// the program is given the directories d0 and d1: the entry goes
				// into one that exists
				name = s.Inputs[r.n(len(s.Inputs))].Path[:3] + strings.TrimPrefix(name, "sub/")
			}
			dup := false
			for _, in := range s.Inputs {
				dup = dup || in.Path == name
			}
			if dup {
				continue
			}
			s.Inputs = append(s.Inputs, scn.Input{Name: "(not a php file)", Src: []byte("<?php echo 'never parsed';\nnot php at all {{{\n"), Path: name, Callback: true})
		}
	}
	if split {
		seen := map[string]bool{}
		for _, in := range s.Inputs {
			d := in.Path[:2]
			if !seen[d] {
				seen[d] = true
				s.CLIPaths = append(s.CLIPaths, d)
			}
		}
		sort.Strings(s.CLIPaths)
	}
	s.CLIFlags = append([]string(nil), cliFlagSets[r.n(len(cliFlagSets))]...)
	if many && len(s.CLIFlags) == 0 {
		s.CLIFlags = []string{"-p"} // something to observe for every file
	}
	if v := cliVersions[r.n(len(cliVersions))]; v != "" {
		s.CLIFlags = append(s.CLIFlags, "-phpver", v)
	}
	if r.chance(15) {
		// fault: an I/O error strikes the program on one (rarely two) of its
		// files; the other files' results must be unaffected
		pb := false
		for _, f := range s.CLIFlags {
			pb = pb || f == "-pb"
		}
		if !pb && r.chance(60) {
			s.CLIFlags = append([]string{"-pb"}, s.CLIFlags...)
			pb = true
		}
		for k := 1 + r.n(5)/4; k > 0; k-- {
			kind := "read-err"
			if pb && r.chance(80) {
				kind = []string{"write-err", "write-err", "write-torn"}[r.n(3)]
			}
			s.FSFaults = append(s.FSFaults, scn.FSFault{Path: s.Inputs[r.n(len(s.Inputs))].Path, Kind: kind})
		}
	}
	s.Workers = r.pick([]int{1, 2, 2, 3, 4, 4, 8})
	if deep {
		s.Workers = r.pick([]int{2, 4, 8, 12, 16})
	}
	if many {
		s.Workers = r.pick([]int{4, 6, 8, 8})
		s.FSFaults = nil
	}
	var est int64 = 2000
	for _, in := range s.Inputs {
		est += int64(150 * len(in.Src))
	}
	s.Sched = r.schedule(est, s.Workers+2)
	if s.Sched.Mode == 3 && s.Sched.SiteClass != "sync" && r.chance(50) {
		s.Sched.SiteClass = "cli"
		if r.chance(40) {
			// the program's own goroutines meet at channel operations and at the
			// WaitGroup: preempt right before and right after those
			s.Sched.SiteClass = "sync"
			s.Sched.Mean = uint64([]int{1, 2, 3, 5, 10}[r.n(5)])
		}
	}
	s.Knob = r.knob(knobs)
	s.Faults = scn.Faults{Seed: r.next(), GCSteps: r.gcSteps(est)}
	s.Faults.Stalls = r.stalls(est, s.Workers+3)
	r.clock(s, est)
	return s
}

func genC11(c *corpus, seed uint64) *scn.Scenario {
	r := &rng{seed}
	s := &scn.Scenario{Prop: "C11", RunSeed: seed, Kind: "A"}
	switch x := r.n(100); {
	case x < 25 && cliEnabled:
		return genC11CLI(c, r, seed)
	case x < 55:
		s.Kind = "B"
	}
	deep := r.deep()
	nt := r.pick([]int{2, 2, 2, 3, 3, 4, 4, 5, 6, 8})
	maxPipes, maxOps := 3, 7
	if deep {
		nt, maxPipes, maxOps = r.pick([]int{4, 6, 8, 10, 12, 16}), 4, 11
	}
	if s.Kind == "B" {
		nt = 1 // pipelines are flattened: the topology supplies the tasks
		maxPipes = 12
		s.Workers = 1 + r.n(4)
		s.QueueCap = 1 + r.n(4)
		if deep {
			maxPipes, s.Workers, s.QueueCap = 30, 1+r.n(12), 1+r.n(8)
		}
	}
	// a small pool of inputs, some used by several pipelines (same input twice
	// must give identical trees)
	ni := 1 + r.n(2*nt+2)
	pLarge := r.pick([]int{0, 0, 0, 2, 5, 20})
	theme := ""
	if r.chance(35) && len(c.themeNames) > 0 {
		theme = c.themeNames[r.n(len(c.themeNames))]
		s.Theme = theme
	}
	// swarm flavours. family: every input is a variant of the first one (what a
	// loosely keyed cache or a process-wide table conflates). crowd: many tiny
	// malformed inputs under one grammar, so that one process meets many
	// different error states and recovery paths (state kept per error site).
	family, crowd, storm := false, false, false
	var split *vsplitItem
	switch x := r.n(100); {
	case x >= 88 && x < 96 && len(c.vsplit) > 0:
		// version split: the same bytes parsed concurrently under versions the
		// tree treats differently (what state keyed too loosely by version, or
		// not at all, gets wrong)
		if len(c.vsplitInner) > 0 && r.chance(60) {
			split = &c.vsplitInner[r.n(len(c.vsplitInner))]
		} else {
			split = &c.vsplit[r.n(len(c.vsplit))]
		}
		ni = 2 + r.n(3)
		s.Theme = "version-split"
	case x >= 96 && len(c.deep) > 0 && s.Kind == "A":
		// storm: many operations cut short by faults deep inside deeply nested
		// trees, in one process (what an error path forgets to give back -
		// counters, pooled objects, depth guards - adds up)
		storm = true
		ni = 2 + r.n(3)
		nt = 2 + r.n(3)
		s.Theme = "storm"
		s.Light = true
	case x < 12:
		family = true
		ni = 2 + r.n(5)
		pLarge = 0
		s.Theme = "family:" + theme
	case x < 20:
		crowd = true
		ni = 12 + r.n(28)
		maxOps = 2
		if s.Kind == "A" {
			nt = 2 + r.n(3)
			maxPipes = 4 + r.n(8)
		}
		s.Theme = "crowd"
	}
	crowdVers := [][]string{{"5.0", "5.3", "5.6"}, {"7.0", "7.1", "7.2", "7.3", "7.4", ""}}[r.n(2)]
	for i := 0; i < ni; i++ {
		if split != nil {
			cl := split.classes[i%len(split.classes)]
			in := scn.Input{Name: split.file.name, Src: append([]byte(nil), split.file.src...), Version: cl[r.n(len(cl))], Callback: r.chance(85)}
			if i >= len(split.classes) && r.chance(30) {
				in = nearDup(r, in)
			}
			s.Inputs = append(s.Inputs, in)
			continue
		}
		if storm && i < 2 {
			f := c.deep[r.n(len(c.deep))]
			in := scn.Input{Name: f.name, Src: append([]byte(nil), f.src...), Version: versions[r.n(len(versions))], Callback: true}
			s.Inputs = append(s.Inputs, in)
			continue
		}
		if crowd {
			in := c.tiny(r)
			in.Version = crowdVers[r.n(len(crowdVers))]
			s.Inputs = append(s.Inputs, in)
			continue
		}
		if i > 0 && (family || r.chance(15)) {
			// a near-duplicate of an earlier input (loosely keyed caches and
			// interning tables conflate the two)
			base := r.n(i)
			if family {
				base = 0
			}
			v := nearDup(r, s.Inputs[base])
			if family && r.chance(40) {
				v = nearDup(r, v)
			}
			s.Inputs = append(s.Inputs, v)
			continue
		}
		s.Inputs = append(s.Inputs, c.inputT(r, pLarge, theme))
	}
	shareAll := r.chance(50)
	keepSub := r.chance(30)  // swarm: in some runs callers keep one statement of a tree and drop the rest
	opFaults := r.chance(30) // swarm: in some runs operations are aborted by their writer
	opParts := r.chance(20)  // swarm: in some runs operations are applied to parts of the trees
	for t := 0; t < nt; t++ {
		var task scn.Task
		if storm {
			for k := 5 + r.n(8); k > 0; k-- {
				p := scn.Pipeline{Input: r.n(ni), ShareVersion: shareAll}
				for o := 1 + r.n(2); o > 0; o-- {
					switch x := r.n(10); {
					case x < 5:
						p.Ops = append(p.Ops, scn.Op{Kind: "traverse", Fault: &scn.WFault{Kind: "abort", At: r.n(4000)}})
					case x < 7:
						p.Ops = append(p.Ops, scn.Op{Kind: []string{"print", "printP", "dump", "dumpTP"}[r.n(4)], Fault: &scn.WFault{Kind: []string{"panic", "err"}[r.n(2)], At: r.n(4000)}})
					default:
						p.Ops = append(p.Ops, scn.Op{Kind: []string{"traverse", "null", "resolve", "print"}[r.n(4)]})
					}
				}
				task.Pipelines = append(task.Pipelines, p)
			}
			s.Tasks = append(s.Tasks, task)
			continue
		}
		for k := 1 + r.n(maxPipes); k > 0; k-- {
			p := scn.Pipeline{Input: r.n(ni), ShareVersion: shareAll || r.chance(30)}
			if keepSub && r.chance(40) {
				p.Keep = []string{"sub", "subgc"}[r.n(2)]
			}
			for o := r.n(maxOps); o > 0; o-- {
				op := scn.Op{Kind: c11Ops[r.n(len(c11Ops))]}
				if opFaults && r.chance(25) {
					// the operation is cut short by its writer (or, for traverse, by
					// its visitor); the reference run meets the same fault
					if op.Kind == "traverse" {
						op.Fault = &scn.WFault{Kind: "abort", At: r.n(60)}
					} else if op.Kind != "resolve" && op.Kind != "null" {
						op.Fault = &scn.WFault{Kind: wfaults[r.n(len(wfaults))], At: r.n(400)}
					}
				}
				if opParts && r.chance(35) {
					if r.chance(60) {
						op.Sub = -(1 + r.n(3000))
					} else {
						op.Sub = 1 + r.n(40)
					}
				}
				p.Ops = append(p.Ops, op)
			}
			task.Pipelines = append(task.Pipelines, p)
		}
		s.Tasks = append(s.Tasks, task)
	}
	if crowd {
		// every input is parsed by some pipeline: deal the unused ones out
		used := make([]bool, ni)
		for t := range s.Tasks {
			for _, p := range s.Tasks[t].Pipelines {
				used[p.Input] = true
			}
		}
		for i := 0; i < ni; i++ {
			if !used[i] {
				t := r.n(len(s.Tasks))
				p := scn.Pipeline{Input: i, ShareVersion: shareAll}
				if r.chance(30) {
					p.Ops = append(p.Ops, scn.Op{Kind: c11Ops[r.n(len(c11Ops))]})
				}
				s.Tasks[t].Pipelines = append(s.Tasks[t].Pipelines, p)
			}
		}
	}
	// keep heavy runs bounded: pipelines over a large input get at most 2 ops,
	// and at most 3 pipelines may use a large input
	heavy := 0
	for t := range s.Tasks {
		for k := range s.Tasks[t].Pipelines {
			p := &s.Tasks[t].Pipelines[k]
			if in := &s.Inputs[p.Input]; !storm && (len(in.Src) > 8192 || strings.HasPrefix(in.Name, "x_deep")) {
				heavy++
				if heavy > 3 {
					p.Input = smallest(s.Inputs)
				} else if len(p.Ops) > 2 {
					p.Ops = p.Ops[:2]
				}
			}
		}
	}
	est := estSteps(s.Inputs, s.Tasks)
	ntasks := nt
	if s.Kind == "B" {
		ntasks = s.Workers + 2
	}
	s.Sched = r.schedule(est, ntasks)
	s.Knob = r.knob(knobs)
	s.Faults = scn.Faults{Seed: r.next(), GCSteps: r.gcSteps(est)}
	s.Faults.Stalls = r.stalls(est, ntasks)
	r.clock(s, est)
	return s
}

var phpKeywords = []string{"function", "const", "use", "namespace", "class", "static", "new", "return", "echo", "array", "list", "as", "extends", "implements", "instanceof", "trait", "interface", "public", "private", "abstract", "final", "global", "isset", "unset", "foreach", "while", "if", "else", "elseif", "switch", "case", "default", "try", "catch", "finally", "throw", "self", "parent", "null", "true", "false", "int", "string", "callable", "insteadof", "yield", "from", "fn", "declare", "goto", "print", "clone", "exit", "die", "var", "and", "or", "xor"}

// kwCase rewrites some (or all) of the PHP keywords that occur in src in another
// letter case; keywords are case-insensitive, so the program stays the same.
func kwCase(r *rng, src []byte) []byte {
	isId := func(ch byte) bool {
		return ch == '_' || (ch >= 'a' && ch <= 'z') || (ch >= 'A' && ch <= 'Z') || (ch >= '0' && ch <= '9') || ch >= 0x80
	}
	type occ struct{ at, kw int }
	var occs []occ
	present := map[int]bool{}
	for k := 0; k < len(src); k++ {
		if k > 0 && (isId(src[k-1]) || src[k-1] == '$' || src[k-1] == '>' || src[k-1] == ':' || src[k-1] == '\\') {
			continue
		}
		for ki, kw := range phpKeywords {
			if k+len(kw) <= len(src) && bytes.EqualFold(src[k:k+len(kw)], []byte(kw)) && (k+len(kw) == len(src) || !(isId(src[k+len(kw)]) || src[k+len(kw)] == '\\')) {
				occs = append(occs, occ{k, ki})
				present[ki] = true
				break
			}
		}
	}
	if len(occs) == 0 {
		return src
	}
	var kws []int
	for ki := range phpKeywords {
		if present[ki] {
			kws = append(kws, ki)
		}
	}
	chosen := map[int]int{} // keyword -> style
	if r.chance(35) {
		st := r.n(3)
		for _, ki := range kws {
			chosen[ki] = st
		}
	} else {
		for n := 1 + r.n(3); n > 0; n-- {
			chosen[kws[r.n(len(kws))]] = r.n(3)
		}
	}
	out := append([]byte(nil), src...)
	for _, o := range occs {
		style, ok := chosen[o.kw]
		if !ok {
			continue
		}
		kw := phpKeywords[o.kw]
		for j := 0; j < len(kw); j++ {
			if style == 0 || (style == 1 && j == 0) || (style == 2 && j%2 == 1) {
				out[o.at+j] = kw[j] &^ 0x20
			} else {
				out[o.at+j] = kw[j]
			}
		}
	}
	return out
}

// nearDup derives a slightly different input from src: a few letters with
// flipped case, a namespace separator removed from or inserted into a name, a
// blank inserted next to one, the same bytes under another version, one or
// several keywords in another letter case (PHP keywords are case-insensitive),
// or one line removed (say, an import that the rest of the file relies on).
func nearDup(r *rng, src scn.Input) scn.Input {
	v := scn.Input{Name: src.Name, Src: append([]byte(nil), src.Src...), Version: src.Version, Callback: src.Callback}
	isId := func(ch byte) bool {
		return ch == '_' || (ch >= 'a' && ch <= 'z') || (ch >= 'A' && ch <= 'Z') || (ch >= '0' && ch <= '9') || ch >= 0x80
	}
	var letters, seps, mids []int
	for k, ch := range v.Src {
		if (ch >= 'a' && ch <= 'z') || (ch >= 'A' && ch <= 'Z') {
			letters = append(letters, k)
		}
		if ch == '\\' && k > 0 && k+1 < len(v.Src) && isId(v.Src[k-1]) && isId(v.Src[k+1]) {
			seps = append(seps, k)
		}
		if k > 1 && k+2 < len(v.Src) && isId(ch) && isId(v.Src[k-1]) && isId(v.Src[k-2]) && isId(v.Src[k+1]) {
			mids = append(mids, k)
		}
	}
	switch x := r.n(7); {
	case x == 4:
		// the same bytes under another version: version-dependent
		// behaviour memoised per process / per content shows here
		v.Version = versions[r.n(len(versions))]
		v.Name += "[ver]"
	case x == 5:
		// keywords in another letter case
		v.Src = kwCase(r, v.Src)
		v.Name += "[kwcase]"
	case x == 6:
		lines := bytes.SplitAfter(v.Src, []byte("\n"))
		if len(lines) > 2 {
			k := 1 + r.n(len(lines)-1)
			// prefer an import line when there is one
			var uses []int
			for li, l := range lines {
				if t := bytes.TrimSpace(l); li > 0 && len(t) > 4 && bytes.EqualFold(t[:4], []byte("use ")) {
					uses = append(uses, li)
				}
			}
			if len(uses) > 0 && r.chance(70) {
				k = uses[r.n(len(uses))]
			}
			v.Src = bytes.Join(append(append([][]byte{}, lines[:k]...), lines[k+1:]...), nil)
		}
		v.Name += "[line-]"
	case x == 0 && len(seps) > 0:
		k := seps[r.n(len(seps))]
		v.Src = append(v.Src[:k], v.Src[k+1:]...)
		v.Name += "[sep-]"
	case x == 1 && len(mids) > 0:
		k := mids[r.n(len(mids))]
		v.Src = append(v.Src[:k], append([]byte{'\\'}, v.Src[k:]...)...)
		v.Name += "[sep+]"
	case x == 2 && len(seps) > 0:
		k := seps[r.n(len(seps))]
		v.Src = append(v.Src[:k], append([]byte{' '}, v.Src[k:]...)...)
		v.Name += "[ws]"
	default:
		for f := 1 + r.n(4); f > 0 && len(letters) > 0; f-- {
			v.Src[letters[r.n(len(letters))]] ^= 0x20
		}
		v.Name += "[case]"
	}
	return v
}

// tiny draws a tiny malformed input: an end-of-input truncation (one per lexer
// state), a malformed corpus member, or a small valid one cut at a random
// place (a different parser state at the end of input each time).
func (c *corpus) tiny(r *rng) scn.Input {
	var f corpusFile
	bad := c.themes["malformed"]
	cut := false
	switch x := r.n(10); {
	case x < 3 && len(c.eof) > 0:
		f = c.eof[r.n(len(c.eof))]
	case x < 5 && len(bad) > 0:
		f = bad[r.n(len(bad))]
	default:
		f = c.small[r.n(len(c.small))]
		cut = true
	}
	in := scn.Input{Name: f.name, Src: append([]byte(nil), f.src...), Callback: r.chance(90)}
	if len(in.Src) > 600 {
		in.Src = in.Src[:100+r.n(500)]
		in.Name += "[cut]"
	} else if cut && len(in.Src) > 8 {
		in.Src = in.Src[:6+r.n(len(in.Src)-6)]
		in.Name += "[cut]"
	} else if r.chance(25) {
		in.Src = append(in.Src, fatalTails[r.n(len(fatalTails))]...)
		in.Name += "[fatal]"
	}
	return in
}

func smallest(in []scn.Input) int {
	b := 0
	for i := range in {
		if len(in[i].Src) < len(in[b].Src) {
			b = i
		}
	}
	return b
}

var c13Ops = []string{"print", "print", "dump", "dumpT", "dumpP", "dumpTP", "traverse", "resolve", "resolve", "printP", "null"}
var wfaults = []string{"err", "errsticky", "short", "panic"}

func genC13(c *corpus, seed uint64) *scn.Scenario {
	r := &rng{seed}
	s := &scn.Scenario{Prop: "C13", RunSeed: seed, Kind: "hist"}
	s.Inputs = []scn.Input{c.input(r, r.pick([]int{0, 0, 3, 10}))}
	withFaults := seed&1 == 1 // fault-free and fault-injecting runs are separate classes
	n := 1 + r.n(24)
	if r.chance(30) {
		n = 1 + r.n(4)
	}
	if r.deep() {
		n = 20 + r.n(60)
	}
	// swarm: a run uses a random subset of the operation kinds
	var kinds []string
	for _, k := range c13Ops {
		if r.chance(60) {
			kinds = append(kinds, k)
		}
	}
	if len(kinds) == 0 {
		kinds = c13Ops
	}
	// swarm: in a quarter of the runs some operations are applied to one or two
	// chosen statements of the tree instead of the root
	var subs []int
	if r.chance(35) {
		for k := 1 + r.n(3); k > 0; k-- {
			if r.chance(55) {
				subs = append(subs, -(1 + r.n(3000))) // any inner vertex, by pre-order number
			} else {
				subs = append(subs, 1+r.n(40))
			}
		}
	}
	if withFaults && r.chance(20) {
		// fault scan: one operation kind cut short at consecutive positions (the
		// executor takes the position modulo the operation's length), so that one
		// run places a fault inside every small region of the operation; the
		// tree is checked after each. A temporary edit that is undone on the
		// normal path only is found wherever in the operation it is made.
		kind := []string{"traverse", "traverse", "print", "printP", "dump", "dumpTP", "dumpT"}[r.n(7)]
		fk := "abort"
		if kind != "traverse" {
			fk = wfaults[r.n(len(wfaults))]
		}
		base, step := r.n(100000), 1+r.n(3)
		if n < 12 {
			n = 12 + r.n(36)
		}
		for i := 0; i < n; i++ {
			s.History = append(s.History, scn.Op{Kind: kind, Fault: &scn.WFault{Kind: fk, At: base + i*step}})
			if r.chance(12) {
				s.History = append(s.History, scn.Op{Kind: c13Ops[r.n(len(c13Ops))]})
			}
		}
		n = 0
	}
	for i := 0; i < n; i++ {
		if r.chance(4) {
			s.History = append(s.History, scn.Op{Kind: "gc"})
			continue
		}
		op := scn.Op{Kind: kinds[r.n(len(kinds))]}
		if withFaults && (strings.HasPrefix(op.Kind, "print") || strings.HasPrefix(op.Kind, "dump")) && r.chance(40) {
			op.Fault = &scn.WFault{Kind: wfaults[r.n(len(wfaults))], At: r.n(100000)}
		}
		if withFaults && op.Kind == "traverse" && r.chance(40) {
			op.Fault = &scn.WFault{Kind: "abort", At: r.n(100000)} // the visitor aborts the traversal
		}
		if len(subs) > 0 && r.chance(40) {
			op.Sub = subs[r.n(len(subs))] // applied to one statement instead of the root
		}
		s.History = append(s.History, op)
	}
	s.Sched = scn.Sched{Mode: 0, Seed: r.next()}
	s.Knob = r.knob(knobs)
	s.Faults = scn.Faults{Seed: r.next()}
	r.clock(s, int64(200*len(s.Inputs[0].Src)*(1+len(s.History))))
	return s
}

var denseBlocks = []int{1, 2, 3, 4, 5, 6, 7, 8, 9, 10, 12, 15, 16, 17, 31, 32, 33, 48, 63, 64}
var bigBlocks = []int{100, 127, 128, 129, 255, 256, 1000, 1023, 1024, 1025, 2048, 4096}

// hugeBlocks: around the 15/16/17-bit limits of a narrowed offset or index
var hugeBlocks = []int{32767, 32768, 32769, 65535, 65536, 65537, 70001, 131072}
var parseKnobs = []int{1, 2, 3, 4, 5, 7, 8, 13, 16, 64, 100, 255, 1000, 1023, 1025}

func genC18(c *corpus, seed uint64) *scn.Scenario {
	r := &rng{seed}
	s := &scn.Scenario{Prop: "C18", RunSeed: seed}
	if r.chance(30) && knobEnabled {
		s.Kind = "parse"
		defer func() { s.Faults.GCSteps = r.gcSteps(estSteps(s.Inputs, s.Tasks)) }()
		nt := 1 + r.n(3)
		ni := 1 + r.n(3)
		pLarge := r.pick([]int{0, 10, 40, 80})
		for i := 0; i < ni; i++ {
			s.Inputs = append(s.Inputs, c.input(r, pLarge))
		}
		for t := 0; t < nt; t++ {
			var task scn.Task
			for k := 1 + r.n(2); k > 0; k-- {
				p := scn.Pipeline{Input: r.n(ni)}
				if r.chance(50) {
					p.Ops = append(p.Ops, scn.Op{Kind: c11Ops[r.n(len(c11Ops))]})
				}
				task.Pipelines = append(task.Pipelines, p)
			}
			s.Tasks = append(s.Tasks, task)
		}
		s.Knob = r.knob(parseKnobs)
		s.Sched = r.schedule(estSteps(s.Inputs, s.Tasks), nt)
		s.Faults = scn.Faults{Seed: r.next()}
		r.clock(s, estSteps(s.Inputs, s.Tasks))
		return s
	}
	s.Kind = "pools"
	nt := r.pick([]int{1, 1, 2, 2, 3, 4})
	maxOps, maxTotal := 18, 20000
	if r.deep() {
		nt, maxOps, maxTotal = r.pick([]int{2, 4, 6, 8}), 60, 80000
	}
	// 5% of the runs are "long": one task, one or two pools, a block size at a
	// 15/16/17-bit limit with a request count beyond it, or a small block size
	// with some 140,000 requests (growth policies, narrowed counters)
	long := r.chance(5)
	if long {
		nt, maxOps, maxTotal = 1, 6, 300000
	}
	// very long (rare, heavy): more than a million requests from one pool, or a
	// block size of 200,000 ... 2^20 with a request count beyond it
	vlong := !long && ((deepTier && r.chance(2)) || r.n(200) == 0)
	huge := false
	if vlong {
		long, nt, maxOps, maxTotal = true, 1, 3, 4600000
	}
	total := 0
	for t := 0; t < nt; t++ {
		var pt scn.PoolTask
		np := 1 + r.n(3)
		if long {
			np = 1 + r.n(2)
		}
		if vlong {
			np = 1
		}
		// swarm: three or four pools of ONE type in one task (helper state kept per
		// type rather than per pool shows when such pools are used alternately)
		sameType := ""
		if !long && r.chance(12) {
			np = 3 + r.n(2)
			sameType = []string{"token", "position"}[r.n(2)]
		}
		// swarm: the task's operations are executed by two goroutines in turn
		pt.Relay = !long && r.chance(15)
		for p := 0; p < np; p++ {
			sp := scn.PoolSpec{Type: []string{"token", "position"}[r.n(2)]}
			if sameType != "" {
				sp.Type = sameType
			}
			if vlong {
				switch x := r.n(4); {
				case x < 2:
					// a block above 2^17, up to twice as many requests as it holds
					sp.Block = r.pick([]int{200001, 200001, 262144, 524288, 1 << 20, 1<<20 + 1})
					if sp.Block > 300000 {
						sp.Type = "position" // the cheaper objects
					}
				case x == 2:
					sp.Block = r.pick([]int{1, 3, 64, 1000, 1024, 4096, 65536})
				default:
					// three to four and a half million requests (growth policies that
					// count doublings, 32-bit products): position objects only
					sp.Block, sp.Type = r.pick([]int{64, 1000, 1024, 1024, 4096}), "position"
					huge = true
				}
			} else if long && r.chance(60) {
				sp.Block = hugeBlocks[r.n(len(hugeBlocks))]
			} else if long {
				sp.Block = r.pick([]int{1, 2, 7, 64, 1000, 1024, 4096})
			} else if r.chance(75) {
				sp.Block = denseBlocks[r.n(len(denseBlocks))]
			} else {
				sp.Block = bigBlocks[r.n(len(bigBlocks))]
			}
			pt.Pools = append(pt.Pools, sp)
		}
		if vlong && !huge {
			maxTotal = 1400000 // (several million objects only of the cheaper kind)
		}
		nops := 2 + r.n(maxOps)
		for o := 0; o < nops; o++ {
			p := r.n(np)
			switch x := r.n(100); {
			case x < 8 && np >= 2 && !long:
				// one object from every pool of the task in turn, enough rounds to
				// take the smallest pool over a boundary or two
				small := pt.Pools[0].Block
				for _, q := range pt.Pools {
					if q.Block < small {
						small = q.Block
					}
				}
				n := 1 + r.n(2*small+2)
				if n > 3000 {
					n = 3000
				}
				if total+n*np > maxTotal {
					n = 1
				}
				total += n * np
				pt.Ops = append(pt.Ops, scn.PoolOp{Kind: "rr", N: n})
			case x < 55:
				blk := pt.Pools[p].Block
				var n int
				switch r.n(4) {
				case 0:
					n = 1 + r.n(3) // a few
				case 1:
					n = blk // exactly one block
				case 2:
					n = blk + 1 - r.n(3) // around a boundary
				default:
					n = 1 + r.n(6*blk) // several boundaries
				}
				if long {
					n = blk + 1 + r.n(blk/8+2)
					if blk < 30000 {
						n = 131000 + r.n(12000)
					}
				}
				if vlong {
					n = blk + 1 + r.n(blk+2)
					if blk <= 65536 {
						n = 1050000 + r.n(150000)
					}
					if huge {
						n = 3250000 + r.n(1200000)
					}
				}
				if n < 1 {
					n = 1
				}
				if total+n > maxTotal {
					n = 1
				}
				total += n
				pt.Ops = append(pt.Ops, scn.PoolOp{Kind: "get", Pool: p, N: n})
			case x < 85:
				pt.Ops = append(pt.Ops, scn.PoolOp{Kind: "write", Pool: p, Arg: r.n(1 << 20)})
			case x < 95:
				pt.Ops = append(pt.Ops, scn.PoolOp{Kind: "verify"})
			case x < 98:
				pt.Ops = append(pt.Ops, scn.PoolOp{Kind: "gc"})
			default:
				// the pool itself is dropped (its objects are kept) and replaced by a
				// new one of the same block size; a GC makes the old one collectable
				pt.Ops = append(pt.Ops, scn.PoolOp{Kind: "renew", Pool: p}, scn.PoolOp{Kind: "gc"})
			}
		}
		s.PoolTasks = append(s.PoolTasks, pt)
	}
	s.Sched = r.schedule(int64(total*12+100), nt)
	if s.Sched.Mode == 3 && s.Sched.SiteClass != "sync" {
		s.Sched.SiteClass = "pool"
	}
	s.Faults = scn.Faults{Seed: r.next()}
	s.Faults.Stalls = r.stalls(int64(total*12+100), nt)
	r.clock(s, int64(total*12+100))
	return s
}

func generate(prop string, c *corpus, seed uint64) *scn.Scenario {
	switch prop {
	case "C11":
		return genC11(c, seed)
	case "C13":
		return genC13(c, seed)
	case "C18":
		return genC18(c, seed)
	}
	return nil
}
