package main

import (
	"os"
	"path/filepath"
	"sort"
	"strconv"
	"strings"

	"verif/scn"
)

type frame struct {
	fn, file string
	line     int
	class    string // repo | harness | sim | std
}

type access struct {
	head   string // "Write at 0x... by goroutine 8:"
	frames []frame
}

type raceReport struct {
	acc [2]access
	raw string
}

func (b *build) classify(file string) string {
	switch {
	case strings.HasPrefix(file, filepath.Join(b.src, "pkg/zzsim")):
		return "sim"
	case strings.HasPrefix(file, b.src+"/"):
		return "repo"
	case strings.HasPrefix(file, filepath.Join(b.scratch, "h")+"/"):
		return "harness"
	}
	return "std"
}

// parseRaceLog splits a GORACE log into reports with their two access stacks.
func (b *build) parseRaceLog(text string) []raceReport {
	var out []raceReport
	for _, block := range strings.Split(text, "==================") {
		if !strings.Contains(block, "WARNING: DATA RACE") {
			continue
		}
		rep := raceReport{raw: strings.TrimSpace(block)}
		lines := strings.Split(block, "\n")
		cur := -1
		for i := 0; i < len(lines); i++ {
			l := lines[i]
			t := strings.TrimSpace(l)
			isHead := (strings.HasPrefix(t, "Read at ") || strings.HasPrefix(t, "Write at ") || strings.HasPrefix(t, "Previous read at ") || strings.HasPrefix(t, "Previous write at ") ||
				strings.HasPrefix(t, "Atomic") || strings.HasPrefix(t, "Previous atomic"))
			if isHead {
				cur++
				if cur < 2 {
					rep.acc[cur].head = t
				}
				continue
			}
			if strings.HasPrefix(t, "Goroutine ") {
				cur = 2 // creation stacks: ignored
				continue
			}
			if cur < 0 || cur > 1 || t == "" {
				continue
			}
			// a frame is "  func()" followed by "      file:line +0x.."
			if strings.HasPrefix(l, "  ") && !strings.HasPrefix(l, "      ") && i+1 < len(lines) && strings.HasPrefix(lines[i+1], "      ") {
				loc := strings.TrimSpace(lines[i+1])
				if k := strings.Index(loc, " +0x"); k >= 0 {
					loc = loc[:k]
				}
				f := frame{fn: strings.TrimSuffix(t, "()")}
				if k := strings.LastIndex(loc, ":"); k >= 0 {
					f.file = loc[:k]
					f.line, _ = strconv.Atoi(loc[k+1:])
				}
				f.class = b.classify(f.file)
				rep.acc[cur].frames = append(rep.acc[cur].frames, f)
				i++
			}
		}
		out = append(out, rep)
	}
	return out
}

// innermost returns the innermost frame that is not standard library / runtime.
func innermost(a access) *frame {
	for i := range a.frames {
		if a.frames[i].class != "std" {
			return &a.frames[i]
		}
	}
	return nil
}

func shortFn(fn string) string {
	return strings.TrimPrefix(fn, "github.com/z7zmey/php-parser/")
}

// the C18 harness functions that access memory through pool-returned pointers
var poolObjectAccessor = map[string]bool{"main.stampToken": true, "main.stampPos": true, "main.tokenHolds": true, "main.posHolds": true}

// judgeRaces turns the race log of one run into violations (a repository frame
// is innermost on at least one side) or an infrastructure complaint (both sides
// are the simulator's own code). DESIGN.md §2.3 attribution rule.
func (b *build) judgeRaces(logGlob string) (viol []scn.Violation, infra string, nReports int) {
	files, _ := filepath.Glob(logGlob)
	seen := map[string]bool{}
	for _, f := range files {
		raw, err := os.ReadFile(f)
		if err != nil {
			continue
		}
		for _, rep := range b.parseRaceLog(string(raw)) {
			nReports++
			f0, f1 := innermost(rep.acc[0]), innermost(rep.acc[1])
			repoSide := (f0 != nil && f0.class == "repo") || (f1 != nil && f1.class == "repo")
			if !repoSide && f0 != nil && f1 != nil && poolObjectAccessor[f0.fn] && poolObjectAccessor[f1.fn] {
				// both accesses are the C18 harness writing/reading THROUGH pointers
				// the pools returned, in two different tasks: the only memory those
				// functions touch besides their own locals is pool-owned, so two
				// tasks' pools handed out the same memory
				sig := "race:objects-of-different-tasks-pools-share-memory"
				if !seen[sig] {
					seen[sig] = true
					viol = append(viol, scn.Violation{Oracle: "P4-pools-independent", Sig: sig, Detail: "two tasks, each using only pointers returned by its own pools, touched the same memory:\n" + b.describeRace(rep)})
				}
				continue
			}
			if !repoSide {
				if infra == "" {
					infra = "race report attributed to the simulator's own code only:\n" + rep.raw
				}
				continue
			}
			name := func(f *frame) string {
				if f == nil {
					return "?"
				}
				if f.class != "repo" {
					return "(" + f.class + ")"
				}
				return shortFn(f.fn)
			}
			pair := []string{name(f0), name(f1)}
			sort.Strings(pair)
			sig := "race:" + pair[0] + " <-> " + pair[1]
			if seen[sig] {
				continue
			}
			seen[sig] = true
			viol = append(viol, scn.Violation{Oracle: "O2-no-data-race", Sig: sig, Detail: b.describeRace(rep)})
		}
	}
	sort.Slice(viol, func(i, j int) bool { return viol[i].Sig < viol[j].Sig })
	return
}

func (b *build) describeRace(rep raceReport) string {
	var sb strings.Builder
	for k := 0; k < 2; k++ {
		sb.WriteString(rep.acc[k].head + "\n")
		n := 0
		for _, f := range rep.acc[k].frames {
			if f.class == "std" && n == 0 {
				sb.WriteString("    " + f.fn + " (std)\n")
				continue
			}
			if n >= 6 {
				break
			}
			n++
			loc := f.file
			if f.class == "repo" {
				rel := strings.TrimPrefix(f.file, b.src+"/")
				loc = rel + " near original line " + strconv.Itoa(b.origLine(rel, f.line))
			} else {
				loc = "[" + f.class + "] " + filepath.Base(f.file) + ":" + strconv.Itoa(f.line)
			}
			sb.WriteString("    " + shortFn(f.fn) + "  " + loc + "\n")
		}
	}
	return sb.String()
}
