// verif-harvest: one-off tool that extracts the PHP source snippets embedded in
// the repository's own tests into /verif/corpus (committed as plain files, so
// the checks never depend on the test files at run time).
package main

import (
	"crypto/sha1"
	"fmt"
	"go/ast"
	"go/parser"
	"go/token"
	"os"
	"path/filepath"
	"strconv"
	"strings"
)

func main() {
	root, out := os.Args[1], os.Args[2]
	seen := map[string]bool{}
	n := 0
	filepath.Walk(root, func(path string, info os.FileInfo, err error) error {
		if err != nil || info.IsDir() || !strings.HasSuffix(path, "_test.go") {
			return nil
		}
		fset := token.NewFileSet()
		f, err := parser.ParseFile(fset, path, nil, 0)
		if err != nil {
			return nil
		}
		rel, _ := filepath.Rel(root, path)
		tag := strings.NewReplacer("/", "_", ".go", "").Replace(rel)
		ast.Inspect(f, func(nd ast.Node) bool {
			lit, ok := nd.(*ast.BasicLit)
			if !ok || lit.Kind != token.STRING {
				return true
			}
			s, err := strconv.Unquote(lit.Value)
			if err != nil || len(s) < 3 || len(s) > 20000 {
				return true
			}
			if !strings.Contains(s, "<?") && !strings.HasPrefix(tag, "internal_scanner") {
				return true
			}
			if !strings.Contains(s, "<?") && !strings.ContainsAny(s, "$;") {
				return true
			}
			if seen[s] {
				return true
			}
			seen[s] = true
			h := sha1.Sum([]byte(s))
			name := fmt.Sprintf("t_%s_%x.php", tag, h[:4])
			os.WriteFile(filepath.Join(out, name), []byte(s), 0644)
			n++
			return true
		})
		return nil
	})
	fmt.Println("harvested", n)
}
