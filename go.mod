module verif

go 1.21
