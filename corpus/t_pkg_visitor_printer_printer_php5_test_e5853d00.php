<?php
	require __DIR__ . '/folder' ;
	require_once $a ;