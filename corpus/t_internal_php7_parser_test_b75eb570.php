<?
		$a = $b;
		$a =& $b;
		$a =& new Foo;
		$a =& new Foo($b);
		$a &= $b;
		$a |= $b;
		$a ^= $b;
		$a .= $b;
		$a /= $b;
		$a -= $b;
		$a %= $b;
		$a *= $b;
		$a += $b;
		$a **= $b;
		$a <<= $b;
		$a >>= $b;
		$a ??= $b;