<?php
	echo '' ;
	echo $a , ' ' , PHP_EOL;

	?>

	<?= $a, $b ?>
	<?= $c ; 

