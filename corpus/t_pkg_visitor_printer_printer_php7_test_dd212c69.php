<?php
	class Foo {
		/**
		 * abstract method
		 */
		public static function & greet ( ? Foo $a ) : void ;
		
		function greet ( string $a )
		{
			return 'hello' ;
		}
	}