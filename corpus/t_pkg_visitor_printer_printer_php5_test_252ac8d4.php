<?php
	class Foo {
		const FOO = 'f' , BAR = 'b' ;
	}