<?php
namespace N {
    use A\{Foo, FOO, foo as Bar};
    use B\{Bar as BAR, function fn1, function FN1, const C1, const c1};
    new foo; new Foo; new FOO; new bar; new BAR; new Bar;
    fn1(); FN1(); Fn1();
    echo C1, c1;
}
namespace {
    use X\Thing;
    use Y\THING;
    use Z\thing as Other;
    function f(thing $a, THING $b, Thing $c, OTHER $d) {}
    new tHiNg;
}
