<?php
	interface Foo extends Bar , Baz {

	}