<?
		if ($a) :
		elseif ($b):
		elseif ($c):
		else:
		endif;
	