<?php
	foreach ( $a as $k => & $v ) {
		;
	}