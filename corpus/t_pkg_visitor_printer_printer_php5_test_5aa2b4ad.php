 <div>Hello</div> 
	<?php
	$a;
	