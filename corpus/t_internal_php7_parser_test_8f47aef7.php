<?
		try {} catch (Exception|RuntimeException $e) {}
	