<?php
	$ /* variable variable comment */ $var ; 