<?php
$a = 1 + ;
$b = ) ( ;
class { }
function () { }
$c = 3;
