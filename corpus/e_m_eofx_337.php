<?php <<<A
A