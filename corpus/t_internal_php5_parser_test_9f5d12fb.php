<? <<<"LBL"
test $var
LBL;
