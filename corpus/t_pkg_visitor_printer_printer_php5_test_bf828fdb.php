<?php

	continue ;
	continue 1 ;
	continue ( 2 ) ;
	