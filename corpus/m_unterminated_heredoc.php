<?php
$a = <<<EOT
never $closed {$x}
