<?php
	include 'foo' ;
	include_once 'bar' ;