<?php ;
)