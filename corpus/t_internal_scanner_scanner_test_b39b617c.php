<?php //test
$a