<? <<<LBL
test $var
LBL;
