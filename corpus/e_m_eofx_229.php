<?php `$
