<?php
function f() { return 1; }
echo f();
__halt_compiler(); raw data <?php not code $x ?>
more
