<?php yield
