<?php
function f1(...$a) { }
function f2(&...$a) { }
function f3(array ...$a) { }
function f4(callable &...$a) { }
function f5(...$a = 1) { }
function f6(&...$a = array()) { }
function f7(\Foo\Bar ...$a = null) { }
function f8(namespace\Bar $a = null, Baz &$b = null, $c = 1 + 2) { }
function &f9() { }
$c = function &(...$a = 1) use (&$x, $y, &$z) { };
$d = static function &($a, &$b = 2) use ($x) { };
$e = static function () { };
f(yield $x);
f(yield $k => $v);
f(yield 1);
f(yield $k => 1);
f((yield $x));
$y = (yield $k => f());
f(...$args);
f(&$a, ...g());
