<?php

	switch ( $a ) : 
	case 1 : 
		;
	case 2 : ;
	case 3 :
		 ;
	default :
		;
	endswitch ;
	

	switch ( $a ) : ;
	case 1 ; ;
	default ; ;
	endswitch ;

	switch ( $a ) :
	endswitch ;
	