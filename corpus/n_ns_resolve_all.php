<?php
namespace App\Models;

use Lib\Base;
use Lib\Contracts as C;
use Lib\{Traits\T1, Traits\T2 as TT, function helper, const LIMIT};
use function Lib\fn_a, Lib\fn_b as fb;
use const Lib\CONST_A, Lib\CONST_B as CB;

interface I extends C\Readable, \Countable, namespace\Local { }
trait Tr { use T1, TT, C\Tr { T1::a insteadof TT, C\Tr; TT::a as protected b; c as d; } }
abstract class M extends Base\Model implements C\Writable, I {
    use Tr;
    public ?C\Item $item;
    private Base $base;
    public int $n; public self $s; public ?parent $p;
    const X = CONST_A + CB + LIMIT + \PHP_INT_MAX + namespace\Y + true + FALSE + Null;
    public function f(C\Item $a, ?Base $b, self $c, int $d, string ...$e): ?C\Result {
        try { helper(); fn_a(); fb(); \strlen('x'); namespace\local_fn(); undefined_fn(); Base\sub_fn(); }
        catch (C\Error | \Exception | LocalError $ex) { throw new C\Wrapped($ex); }
        finally { echo CONST_A, CB, C\K, \E_ALL, namespace\Z, UNDEF; }
        $x = new Base; $y = new C\Item(); $z = new namespace\Local; $w = new \Abs\Cls; $v = new static; $u = new self; $t = new parent;
        $a instanceof C\Item; $a instanceof Base; $a instanceof namespace\Q; $a instanceof \R;
        Base::m(); C\Item::m(); namespace\L::m(); \G::m(); static::m(); self::$p; parent::K; Base::$p; C\Item::K; C\Item::class;
        $f = function (C\Item $i) use ($x): Base { return $i; };
        $g = static fn(?C\Item $i): ?Base => $i;
        return null;
    }
    abstract function g(callable $a, array $b, iterable $c, object $d, bool $e, float $f, mixed $g): void;
}
function free_fn(Base $a, C\Item ...$b): C\Item { return $b[0]; }
namespace Other;
function g(Base $notImported, \App\Models\M $m): namespace\Ret { return new Base; }
const OC = 1;
