<?php
echo 1;
?>
html
<?php
echo 2;
