<?
		switch (1) :
			case 1:
			default:
			case 2;
		endswitch;