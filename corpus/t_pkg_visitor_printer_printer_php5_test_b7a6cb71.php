<?php
	if ( 1 ) :
		// do nothing
	elseif ( 2 ) :
	elseif ( 3 ) :
		;
	else :
		;
	endif ;