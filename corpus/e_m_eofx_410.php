<?php <<<A
{
