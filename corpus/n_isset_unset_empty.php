<?php
isset($a);
isset($a, $b, $c,);
isset($a->b, $a['k'], A::$s, $a->b()['c'], $$v, ${'w'});
isset($a[0][1]->x->y[2]);
!isset($a) && isset($b) || !empty($c);
empty($a);
empty($a->b['c']);
empty(f());
empty(A::C);
empty([]);
empty("");
empty($a ?? $b);
unset($a);
unset($a, $b, $c,);
unset($a->b, $a['k'], A::$s, $$v, ${'w'});
unset($a[0][1]->x);
$r = isset($a) ? $a : (empty($b) ? 1 : 2);
