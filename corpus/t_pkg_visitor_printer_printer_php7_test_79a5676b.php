<?php
	$a = static fn & ( $b ) : void => $c ;
	