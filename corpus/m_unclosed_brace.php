<?php
function f() { if ($a) { echo 1; 
class A { function g() { return 1; }
