<?php

	new Foo ;

	new Foo ( $a, $b ) ;
	