<?php
	Foo :: bar ( $a , $b ) ;