<?php
declare(strict_types=1);
declare(ticks=1);
declare(ticks=1) { echo 1; }
declare(ticks=1): echo 2; enddeclare;
declare(ticks=1) echo 3;
declare(encoding='UTF-8');
declare(ticks=1, strict_types=0);
declare(ticks=1, encoding='x') { }
declare(ticks=1):
enddeclare;
declare(ticks=1) declare(ticks=2) { }
DECLARE(TICKS=1);
