<?php 

{
    ;?><div></div><?php 
    echo $foo;?><div></div><?php 
    ;
}