<?php
	$a instanceof Foo ;