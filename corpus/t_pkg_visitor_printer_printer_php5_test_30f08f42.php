<?php

	switch ( $a ) {
		case 1 : ;
		default : ;
	}
	switch ( $a ) { ;
		case 1 ; ;
		default ; ;
	}