<?php
namespace Lib;
use Vendor\Cache;
use Legacy\CACHE;
use Vendor\cache as Store;
use Legacy\store;
class K extends cache { function m(Cache $a, CACHE $b, STORE $c) { return new cAcHe(); } }
