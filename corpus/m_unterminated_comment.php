<?php
$a = 1; /* never closed
$b = 2;
