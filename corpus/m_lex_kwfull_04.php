<?php
INCLUDE_ONCE;require require;require[require|require	require
require0;requirez;requireZ;require_;require;
REQUIRE REQUIRE;REQUIRE[REQUIRE|REQUIRE	REQUIRE
REQUIRE0;REQUIREz;REQUIREZ;REQUIRE_;REQUIRE;require_once 
require_once;require_once[require_once|require_once	require_once
require_once0;require_oncez;require_onceZ;
require_once_;require_once;REQUIRE_ONCE REQUIRE_ONCE;REQUIRE_ONCE[REQUIRE_ONCE|REQUIRE_ONCE	REQUIRE_ONCE

REQUIRE_ONCE0;REQUIRE_ONCEz;REQUIRE_ONCEZ;REQUIRE_ONCE_;REQUIRE_ONCE;__class__ __class__;__class__[__class__|
__class__	__class__
__class__0;__class__z;__class__Z;__class___;__class__;__CLASS__ __CLASS__;__CLASS__[
__CLASS__|__CLASS__	__CLASS__
__CLASS__0;__CLASS__z;__CLASS__Z;__CLASS___;__CLASS__;__dir__ __dir__;__dir__[
__dir__|__dir__	__dir__
__dir__0;__dir__z;__dir__Z;__dir___;__dir__;__DIR__ __DIR__;__DIR__[__DIR__|__DIR__	
__DIR__
__DIR__0;__DIR__z;__DIR__Z;__DIR___;__DIR__;__file__ __file__;__file__[__file__|__file__	__file__

__file__0;__file__z;__file__Z;__file___;__file__;__FILE__ __FILE__;__FILE__[__FILE__|__FILE__	__FILE__

__FILE__0;__FILE__z;__FILE__Z;__FILE___;__FILE__;__function__ __function__;__function__[__function__|
__function__	__function__
__function__0;__function__z;__function__Z;__function___;__function__;__FUNCTION__ 
__FUNCTION__;__FUNCTION__[__FUNCTION__|__FUNCTION__	__FUNCTION__
__FUNCTION__0;__FUNCTION__z;__FUNCTION__Z;
__FUNCTION___;__FUNCTION__;__line__ __line__;__line__[__line__|__line__	__line__
__line__0;__line__z;
__line__Z;__line___;__line__;__LINE__ __LINE__;__LINE__[__LINE__|__LINE__	__LINE__
__LINE__0;__LINE__z;
__LINE__Z;__LINE___;__LINE__;__namespace__ __namespace__;__namespace__[__namespace__|__namespace__	
__namespace__
__namespace__0;__namespace__z;__namespace__Z;__namespace___;__namespace__;__NAMESPACE__ 
__NAMESPACE__;__NAMESPACE__[__NAMESPACE__|__NAMESPACE__	__NAMESPACE__
__NAMESPACE__0;__NAMESPACE__z;
__NAMESPACE__Z;__NAMESPACE___;__NAMESPACE__;__method__ __method__;__method__[__method__|__method__	
__method__
__method__0;__method__z;__method__Z;__method___;__method__;__METHOD__ __METHOD__;__METHOD__[
__METHOD__|__METHOD__	__METHOD__
__METHOD__0;__METHOD__z;__METHOD__Z;__METHOD___;__METHOD__;__trait__ 
__trait__;__trait__[__trait__|__trait__	__trait__
__trait__0;__trait__z;__trait__Z;__trait___;__trait__;
__TRAIT__ __TRAIT__;__TRAIT__[__TRAIT__|__TRAIT__	__TRAIT__
__TRAIT__0;__TRAIT__z;__TRAIT__Z;__TRAIT___;
__TRAIT__;new new;new[new|new	new
new0;newz;newZ;new_;new;NEW NEW;NEW[NEW|NEW	NEW
NEW0;NEWz;NEWZ;NEW_;NEW;
and and;and[and|and	and
and0;andz;andZ;and_;and;AND AND;AND[AND|AND	AND
AND0;ANDz;ANDZ;AND_;AND;or or;or[or|
or	or
or0;orz;orZ;or_;or;OR OR;OR[OR|OR	OR
OR0;ORz;ORZ;OR_;OR;xor xor;xor[xor|xor	xor
xor0;xorz;xorZ;xor_;
xor;XOR XOR;XOR[XOR|XOR	XOR
XOR0;XORz;XORZ;XOR_;XOR;
