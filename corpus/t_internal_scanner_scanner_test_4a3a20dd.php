<?php
	$a -> bar ( '' ) ;