<?php
declare(strict_types=1);
namespace App\Models;

use Foo\Bar;
use Foo\Baz as Qux, Other\Thing;
use function Foo\fn1, Foo\fn2 as f2;
use const Foo\C1;
use Grp\{A, B as BB, function c, const D};

abstract class Model extends Base implements \ArrayAccess, Countable
{
    use T1, T2 { T1::foo insteadof T2; T2::foo as protected bar; baz as public; }
    const A = 1, B = self::A + 1;
    public const C = 'c';
    public static ?int $count = 0;
    private array $data = [];
    protected Bar $bar;
    var $legacy;

    abstract protected function id(): ?int;

    final public static function make(int ...$args): self { return new static(...$args); }

    public function __construct(private_t $a = null, &$b = [], ?Qux ...$rest) { parent::__construct(); }

    public function &ref(): iterable { yield 1 => 2; yield from $this->gen(); return; }
}

interface I extends J, K { const X = 1; public function m(); }
trait T { public $p; function t() { return static::class; } }
final class F {}
$o = new class(1, 2) extends Model implements I { public function id(): ?int { return null; } };
