<?
		try {} catch (Exception $e) {}