<?php
	$a ; 