<?php <<<A
{