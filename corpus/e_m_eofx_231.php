<?php "\
