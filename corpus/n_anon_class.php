<?php
new class { };
new class() { };
new class(1, $b, ...$c) { public $x; };
new class extends Foo { };
new class implements Bar, Baz { };
new class(1) extends Foo implements Bar { use T; const C = 1; function f() { return new class { }; } };
$o = new class($a) extends \Foo\Bar implements \Countable, namespace\X {
    private $a;
    public function __construct($a) { $this->a = $a; }
    public function count(): int { return 0; }
};
f(new class { }, new class { });
(new class { public $p = 1; })->p;
(new class { function m() {} })->m();
new class {
    /** doc */
    public function d() { }
};
