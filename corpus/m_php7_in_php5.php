<?php
function f(?int $a): ?string { return $a ?? 'x'; }
$f = fn($x) => $x;
class A { public int $p; }
[$a, $b] = [1, 2];
