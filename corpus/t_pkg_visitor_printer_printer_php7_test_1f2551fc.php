<?php
	declare ( FOO = 'bar' , BAR = "foo" ) ;
	declare ( FOO = 'bar' ) $a ;
	declare ( FOO = 'bar' ) { }

	declare ( FOO = 'bar' ) : enddeclare ;
	declare ( FOO = 'bar' ) :
		;
	enddeclare ;
