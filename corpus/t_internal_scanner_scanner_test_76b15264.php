<?php
	/*test*/