<?php

	try {

	} catch ( \ Exception | \ Foo \ Bar $e) {

	} finally {

	}