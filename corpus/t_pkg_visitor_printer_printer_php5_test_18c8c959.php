<?php
	foreach ( $a as $k => & $v ) :
		echo $v ;
	endforeach ;