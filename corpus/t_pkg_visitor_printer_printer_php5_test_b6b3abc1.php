<?php
	$a = function ( ) use ( $a , & $b ) {
		// do nothing
	} ;
	