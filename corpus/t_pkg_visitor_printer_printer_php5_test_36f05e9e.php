<?php
	array ( /* empty array */ ) ;
	array ( 0 , 2 => 2 ) ;
	