<?php
function f1(...$a) { }
function f2(&...$a) { }
function f3(int ...$a) { }
function f4(?int &...$a) { }
function f5(...$a = 1) { }
function f6(&...$a = []) { }
function f7(?\Foo\Bar ...$a = null) { }
function f8(namespace\Bar $a = null, ?Baz &$b = null, $c = 1 + 2, array $d = [], callable $e = null, ?array $f = null, ?callable $g = null) { }
function &f9(): ?array { }
function f10(): \Foo { }
function f11(): ?namespace\Foo { }
function f12(): callable { }
function f13(self $a, parent $b = null): iterable { }
function f14(int $a, float $b, string $c, bool $d, object $e, mixed $f, iterable $g): void { }
function f15($a,
    $b) { }
