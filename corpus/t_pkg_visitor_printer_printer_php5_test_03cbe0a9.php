<?php

	while ( $a ) :
		// do nothing
	endwhile ;