<?php

	try {

	} catch ( \ Exception $e) {

	} finally {

	}