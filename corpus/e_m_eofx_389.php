<?php <<<A
$