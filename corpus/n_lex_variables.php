<?php
$a; $A; $_; $_a; $a1; $a_1; $€; $ÿþ; $a€b; $aB9_;
$$a; $$$a; ${a}; ${'a'}; ${"a$b"}; ${$a}; ${a . b};
$this; $GLOBALS['x']; $_GET; $_POST['a']['b'];
$a=$b; $a=&$b; $a->$b; $a::$b; A::$b; A::$$b;
