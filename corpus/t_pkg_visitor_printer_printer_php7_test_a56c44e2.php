<?php
	$foo = [
		$world ,
		& $world ,
		'Hello' => $world ,
		... $unpack
	] ;
	