<?php
	use function Foo \ { Bar as Baz , Quuz , } ;
	use Foo \ { function Bar as Baz , const Quuz } ;
	use \ Foo \ { function Bar as Baz , const Quuz , } ;
	