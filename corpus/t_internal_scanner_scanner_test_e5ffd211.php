<?php
		$a; ?> test <?php
		$a ?> test
	