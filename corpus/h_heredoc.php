<?php
$a = <<<EOT
 hello $x[1] and {$obj->prop['k']} and ${var} $obj->p
  line two \$escaped \\
EOT;
$b = <<<'NOW'
 raw $text {$here}
NOW;
$c = <<<"QUOTED"
x $y z
QUOTED;
echo <<<EOT
  indented $v
  EOT;
f(<<<A
a
A
, <<<B
b
B
);
