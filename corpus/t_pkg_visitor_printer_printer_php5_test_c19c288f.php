<?php
	static $a , $b = ' ' ;
	