<?php
$a = 1
$b = 2;
echo $a
echo $b;
return 1
break
continue
global $g
static $s = 1
unset($a)
throw new E
goto lbl
const C = 1
use A\B
namespace N
declare(ticks=1)
do { } while (1)
f()
$x->y
new Foo
exit
print 1
yield 2
include 'a'
echo "end";
