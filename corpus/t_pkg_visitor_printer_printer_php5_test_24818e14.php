<?php
	FOO [ ] ;
	FOO [ 1 ] ;
	$a [ ] ;
	$a [ 1 ] ;
	$a { 1 } ;
	new $a [ ] ;
	new $a [ 1 ] ;
	new $a { 1 } ;
	"$a[1]test" ;
	"${ a [ 1 ] }test" ;
	