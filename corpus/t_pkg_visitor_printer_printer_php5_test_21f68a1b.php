<?php
	isset ( $a , $b [ 2 ] ) ;