<?php
(a); ( a ); (az); (a); (AR); ( AR ); (ARz); (AR); (arr); ( arr ); (arrz); (arr); (ARRA); 
( ARRA ); (ARRAz); (ARRA); (arrayx); (ARRAY_); (array 1); ( array
); (
array); (array); 
(array )1; (B); ( B ); (Bz); (B); (bo); ( bo ); (boz); (bo); (BOO); ( BOO ); (BOOz); (BOO); 
(boolx); (BOOL_); (bool 1); ( bool
); (
bool); (bool); (bool )1; (b); ( b ); (bz); (b); (BO); 
( BO ); (BOz); (BO); (boo); ( boo ); (booz); (boo); (BOOL); ( BOOL ); (BOOLz); (BOOL); (boole); 
( boole ); (boolez); (boole); (BOOLEA); ( BOOLEA ); (BOOLEAz); (BOOLEA); (booleanx); (BOOLEAN_); 
(boolean 1); ( boolean
); (
boolean); (boolean); (boolean )1; (R); ( R ); (Rz); (R); (re); 
( re ); (rez); (re); (REA); ( REA ); (REAz); (REA); (realx); (REAL_); (real 1); ( real
); (
real); 
(real); (real )1; (d); ( d ); (dz); (d); (DO); ( DO ); (DOz); (DO); (dou); ( dou ); (douz); 
(dou); (DOUB); ( DOUB ); (DOUBz); (DOUB); (doubl); ( doubl ); (doublz); (doubl); (doublex); 
(DOUBLE_); (double 1); ( double
); (
double); (double); (double )1; (F); ( F ); (Fz); (F); (fl); 
( fl ); (flz); (fl); (FLO); ( FLO ); (FLOz); (FLO); (floa); ( floa ); (floaz); (floa); (floatx); 
(FLOAT_); (float 1); ( float
); (
float); (float); (float )1; (i); ( i ); (iz); (i); (IN); 
( IN ); (INz); (IN); (intx); (INT_); (int 1); ( int
); (
int); (int); (int )1; (I); ( I ); (Iz); 
(I); (in); ( in ); (inz); (in); (INT); ( INT ); (INTz); (INT); (inte); ( inte ); (intez); 
(inte); (INTEG); ( INTEG ); (INTEGz); (INTEG); (intege); ( intege ); (integez); (intege); 
(integerx); (INTEGER_); (integer 1); ( integer
); (
integer); (integer); (integer )1; (o); ( o ); 
(oz); (o); (OB); ( OB ); (OBz); (OB); (obj); ( obj ); (objz); (obj); (OBJE); ( OBJE ); (OBJEz); 
(OBJE); (objec); ( objec ); (objecz); (objec); (objectx); (OBJECT_); (object 1); ( object
); 
(
object); (object); (object )1; (S); ( S ); (Sz); (S); (st); ( st ); (stz); (st); (STR); 
( STR ); (STRz); (STR); (stri); ( stri ); (striz); (stri); (STRIN); ( STRIN ); (STRINz); (STRIN); 
(stringx); (STRING_); (string 1); ( string
); (
string); (string); (string )1; (b); ( b ); (bz); 
(b); (BI); ( BI ); (BIz); (BI); (bin); ( bin ); (binz); (bin); (BINA); ( BINA ); (BINAz); 
(BINA); (binar); ( binar ); (binarz); (binar); (binaryx); (BINARY_); (binary 1); ( binary
); 
(
binary); (binary); (binary )1; (U); ( U ); (Uz); (U); (un); ( un ); (unz); (un); (UNS); 
( UNS ); (UNSz); (UNS); (unse); ( unse ); (unsez); (unse); (unsetx); (UNSET_); (unset 1); 
( unset
); (
unset); (unset); (unset )1; 
