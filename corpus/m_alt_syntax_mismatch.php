<?php
if ($a): echo 1; endwhile;
while ($a): echo 1; endif;
for (;;): endforeach;
foreach ($a as $b): endfor;
switch ($a): endswitch
declare(ticks=1): endswitch;
if ($a): else: else: endif;
if ($a) { } else: endif;
if ($a): elseif ($b) { } endif;
endif;
endwhile; endfor; endforeach; endswitch; enddeclare;
else { }
elseif ($a) { }
case 1:
default:
catch (E $e) { }
finally { }
echo "ok";
