<?php
	<<<CAT
$foo/
CAT;

	<<<CAT
$foo/100
CAT;

	<<<CAT
$/$foo
CAT;

	<<<CAT
$0$foo
CAT;

	<<<CAT
$foo$bar\
CAT
