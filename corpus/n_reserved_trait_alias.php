<?php
class T {
    use A, B {
        a as include; b as list; c as new; d as print; e as array; f as class; g as fn; h as namespace;
        A::i as protected; A::j as public k; B::l as private function; m as final n; o as static; p as abstract;
        A::q insteadof B; B::r insteadof A, C;
        A::s as t; u as v;
        A::include as exit; B::list insteadof A; while as endwhile;
    }
    use C;
    use D, E { }
    use \F\G, namespace\H { \F\G::x insteadof namespace\H; namespace\H::y as protected z; }
}
