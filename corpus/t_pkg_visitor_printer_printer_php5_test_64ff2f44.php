<?php
	$foo = [
		$world ,
		& $world ,
		'Hello' => $world ,
	] ;
	