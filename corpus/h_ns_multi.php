<?php
namespace First;
use Foo\Bar as Baz, Foo\{Qux, function quux, const QUUX};
function a(Baz $b, Qux $q): ?Baz { return quux(QUUX); }
interface I extends Qux, Baz {}
namespace Second;
function b(Baz $b, Qux $q) { return quux(QUUX) + namespace\c() + \strlen("a"); }
class D extends Baz implements Qux {
    use T1, T2 { T1::x insteadof T2; T2::x as protected y; }
    const K = Baz::K;
    public ?Qux $p;
    public static function m(self $s, parent $p, int $i, iterable $it): static { return new static; }
}
$f = function (Baz $z) use ($q): Qux { return $z; };
$g = fn(Baz $z): ?Qux => Baz::make($z);
