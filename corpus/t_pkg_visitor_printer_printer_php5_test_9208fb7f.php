<?php
	! $var ;
	