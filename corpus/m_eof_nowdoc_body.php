<?php <<<'EOT'
abc