<?php

	break ;
	break 1 ;
	break ( 2 ) ;
