<?php
	eval ( " " ) ;
	