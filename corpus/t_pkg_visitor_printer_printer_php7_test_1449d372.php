<?php
	yield $a ;
	yield $k => $v ;
	yield from $a ;