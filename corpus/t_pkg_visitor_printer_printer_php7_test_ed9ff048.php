<?php
	foo ( $a , $b
		, ... $c ,
	) ; 