<?php
$list = [<<<A
x $v
A, <<<B
y
B];
f(<<<X
 body
 X . "tail", 2);
$s = <<<"Q"
EOTX is not the end
 Q is not the end either in old php
Q;
echo $s;
