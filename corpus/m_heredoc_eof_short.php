<?php
$a = <<<EOT
ab