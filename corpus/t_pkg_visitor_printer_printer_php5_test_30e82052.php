<?php
	goto Foo ;