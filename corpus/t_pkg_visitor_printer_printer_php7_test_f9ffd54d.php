<?php
	$var :: CONST ;
	