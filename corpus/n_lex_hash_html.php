# not a shebang
#!neither <?php echo 1 ?>