<?php
	$a -> bar ( $arg , ) ;