#!/usr/bin/env php
<?php
echo "hi";
