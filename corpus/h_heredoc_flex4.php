<?php
echo <<<ONE
first $a
ONE
. <<<TWO
  second ${b}
  TWO . <<<'THREE'
third
THREE;
class K { const C = <<<C
 const text
 C; public $p = <<<'P'
prop
P;
}
