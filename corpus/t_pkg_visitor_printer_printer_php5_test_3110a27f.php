<?php
	{
		;
	}
	