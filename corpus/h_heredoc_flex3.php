<?php
function t($v) {
    return <<<SQL
        SELECT * FROM t
        WHERE a = {$v['a']} AND b = $v[0] AND c = {$v->c}
        SQL;
}
$e = <<<E
E;
$f = <<<E
 one
 E
;
echo t([]), $e, $f;
