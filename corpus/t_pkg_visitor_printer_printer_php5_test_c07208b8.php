<?php
	final class Foo extends Bar implements Baz , Quuz {
		
	}