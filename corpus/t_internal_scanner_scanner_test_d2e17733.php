<?php
		"foo $a"

		"foo $a{$b}"

		"test $var {$var} ${var_name} {s $ \$a "
		
		"{$var}"
		
		"$foo/"
		"$foo/100;"

		"$/$foo"
		"$0$foo"

		"$foo$"
	