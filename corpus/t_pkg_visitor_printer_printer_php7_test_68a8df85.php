<?php
	function foo ( foo & ... $foo = null ) {}