<?php
	function & foo ( ) : void {
		;
	}