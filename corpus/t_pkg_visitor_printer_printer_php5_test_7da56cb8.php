<?php
	(  array     ) $a ;
	(  bool      ) $a ;
	(  boolean   ) $a ;
	(  real      ) $a ;
	(  double    ) $a ;
	(  float     ) $a ;
	(  int       ) $a ;
	(  integer   ) $a ;
	(  object    ) $a ;
	(  string    ) $a ;
	(  binary    ) $a ;
	(  unset     ) $a ;
	