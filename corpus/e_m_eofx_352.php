<?php "$a(

