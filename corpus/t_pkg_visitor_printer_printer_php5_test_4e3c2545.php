<?php
	global $a , $b ;