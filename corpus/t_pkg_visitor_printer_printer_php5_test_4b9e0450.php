<?php
	foo ( ) ;
	$var ( $a , ... $b , $c ) ;
	