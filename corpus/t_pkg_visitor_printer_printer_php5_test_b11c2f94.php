<?php
	for ( $a ; $b ; $c ) :
	endfor ;
	
	for ( ; ; ) :
	endfor ;