<?
		<<<CAD
CAD;
		<<<CAD
	hello
CAD;
		<<<"CAD"
	hello
CAD;
		<<<"CAD"
	hello $world
CAD;
		<<<'CAD'
	hello $world
CAD;
	