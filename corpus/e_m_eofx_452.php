<?php <<<A
$a[E\${a})//