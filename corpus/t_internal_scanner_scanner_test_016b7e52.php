#!/usr/bin/env php
<br/><?php
0.1
