<?php
/** doc for f */
function /* a */ f /* b */ ( /* c */ $a /* d */ , /* e */ $b /* f */ ) /* g */ { /* h */ }
// line 1
# line 2
$a /* x */ = /* y */ [ /* z */ 1 /* w */ , /* v */ ] /* u */ ; // end
class /* a */ C /* b */ extends /* c */ D /* d */ { /* e */ use /* f */ T /* g */ ; /* h */ }
