<?php
function outer() {
    function inner_fn($a) { return $a; }
    class InnerClass { }
    abstract class InnerAbs { }
    final class InnerFinal { }
    trait InnerTrait { }
    interface InnerIface { }
    if (true) {
        function cond_fn() { }
        class CondClass extends InnerClass implements InnerIface { }
    }
}
while (0) {
    function in_loop() { }
    interface LoopIface extends InnerIface, \Countable { }
}
