<?php
try { a(); } catch (E $e) { b(); }
try { a(); } catch (E $e) { b(); } catch (F $f) { c(); }
try { a(); } catch (E | F $e) { b(); }
try { a(); } catch (\A\E | namespace\F | G\H $e) { b(); } finally { c(); }
try { a(); } finally { c(); }
try { } catch (E $e) { } finally { }
try { try { a(); } catch (E $e) { throw $e; } finally { b(); } } catch (\Throwable $t) { try { c(); } finally { d(); } }
function f() { try { return 1; } catch (E $e) { return 2; } finally { return 3; } }
throw new E("x");
throw $e;
throw f();
