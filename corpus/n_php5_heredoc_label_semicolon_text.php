<?php
$a = <<<EOT
EOT;x
EOT;
