<?php
$a = 1;
if ($a) {
  echo "x
y";
}
$b = <<<EOT
line $a
EOT;
// c
