#!/usr/bin/env php
<?php echo 1;
