<?php
	const FOO = 1 , BAR = 2 ;
	