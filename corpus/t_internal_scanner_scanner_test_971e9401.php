<?php
	<<<"CAT"
		text
	CAT, $b