<?php
	print $a ;
	print ( $a ) ;