<?php
	$a & $b ;
	$a | $b ;
	$a ^ $b ;
	$a && $b ;
	$a || $b ;
	$a . $b ;
	$a / $b ;
	$a == $b ;
	$a >= $b ;
	$a > $b ;
	$a === $b ;
	$a and $b ;
	$a or $b ;
	$a xor $b ;
	$a - $b ;
	$a % $b ;
	$a * $b ;
	$a != $b ;
	$a <> $b ;
	$a !== $b ;
	$a + $b ;
	$a ** $b ;
	$a << $b ;
	$a >> $b ;
	$a <= $b ;
	$a < $b ;
	