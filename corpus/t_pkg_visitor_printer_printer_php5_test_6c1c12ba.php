<?php
	do {
		;
	} while ( $a ) ;
	