<?php
namespace App\Http;

use Vendor\Http\Client;
use Legacy\Net\CLIENT;
use Other\Pkg\client as Transport;
use Other\Pkg\Transport as TRANSPORT;
use function Vendor\Str\snake;
use function Legacy\Str\SNAKE;
use function Legacy\Str\Snake as to_snake;
use const Vendor\LIMIT;
use const Vendor\limit;
use const Vendor\Limit;

class Service extends client implements TRANSPORT
{
    public function run(cLiEnT $c, transport $t): Client
    {
        $a = new client();
        $b = new CLIENT();
        $c = new Client\Sub();
        $d = CLIENT\Sub::make();
        echo snake('x'), SNAKE('y'), Snake('z'), TO_SNAKE('w');
        echo LIMIT, limit, Limit;
        return $a instanceof tRANSPORT ? $a : $b;
    }
}
