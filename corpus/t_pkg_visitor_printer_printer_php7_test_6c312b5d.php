<?php
	abstract final class Foo extends Bar implements Baz , Quuz {
		
	}

	new class ( $c, $a ) extends Foo implements Bar , Baz {

	} ;