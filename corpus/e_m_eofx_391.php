<?php $a->
@