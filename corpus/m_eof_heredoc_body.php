<?php <<<EOT
abc