<?php
__HALT_COMPIL0;__HALT_COMPILz;__HALT_COMPILZ;__HALT_COMPIL_;__HALT_COMPIL;__HALT_COMPIL\x;__halt_compile ;
__halt_compile;__halt_compile[0];__halt_compile|1;__halt_compile0;__halt_compilez;__halt_compileZ;
__halt_compile_;__halt_compile;__halt_compile\x;ne ;ne;ne[0];ne|1;ne0;nez;neZ;ne_;ne;ne\x;an ;an;an[0];an|1;
an0;anz;anZ;an_;an;an\x;o ;o;o[0];o|1;o0;oz;oZ;o_;o;o\x;x ;x;x[0];x|1;x0;xz;xZ;x_;x;x\x;XO ;XO;XO[0];XO|1;
XO0;XOz;XOZ;XO_;XO;XO\x;
