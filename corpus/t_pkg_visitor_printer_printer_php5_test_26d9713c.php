<?php
	trait foo {
		function bar ( ) { }
	}