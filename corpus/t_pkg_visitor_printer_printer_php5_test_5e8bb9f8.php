<?php
	Foo : $b ; 