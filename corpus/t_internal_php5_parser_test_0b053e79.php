<?
		if ($a) :
		else:
		endif;
	