<?php "$

&