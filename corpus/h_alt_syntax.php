<?php if ($a): ?>
A
<?php elseif ($b): ?>
B
<?php else: ?>
C
<?php endif; ?>
<?php foreach ($xs as $k => $v): echo $k; endforeach; ?>
<?php for ($i = 0; $i < 3; $i++): ?><?= $i ?><?php endfor; while ($x): $x--; endwhile; switch ($y): case 1: break; default: endswitch; declare(ticks=1): enddeclare; ?>
tail
