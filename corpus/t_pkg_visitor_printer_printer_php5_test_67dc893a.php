<?php
	foo(<<<EAP
test
EAP
, 'test'
);

<<<EAP
test
EAP;

<<<'EAP'
test
EAP;

<<<"EAP"
test
EAP;
	