<?php
function g() {
    yield;
    yield 1;
    yield $a;
    yield $k => $v;
    yield 'k' => f();
    yield from [1, 2];
    yield from g2();
    $x = yield;
    $x = yield 1;
    $x = yield $k => $v;
    $x = (yield) + (yield 1);
    f(yield, yield 2);
    $y = yield from g2();
    return yield;
    yield yield 1;
    yield fn() => yield 2;
    yield -1; yield +1; yield !$a; yield [1]; yield new A; yield clone $b; yield function () { };
    echo yield 3;
    foreach (yield as $v) { }
    while (yield) { }
    if (yield $a) { }
}
$gen = (function () { yield 1; })();
$gen2 = (fn() => yield)();
