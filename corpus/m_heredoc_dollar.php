<?php
$a = <<<EOT
$$a
EOT;
