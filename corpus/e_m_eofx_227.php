<?php "{
