<?php
$a = __halt_compiler();
rest