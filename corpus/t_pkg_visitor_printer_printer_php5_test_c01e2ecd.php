<?php
	__CLASS__     ;
	__DIR__       ;
	__FILE__      ;
	__FUNCTION__  ;
	__LINE__      ;
	__NAMESPACE__ ;
	__METHOD__    ;
	__TRAIT__     ;
	