<?php

namespace Foo;

abstract class Bar extends Baz
{
    public function greet()
    {
        echo "Hello";
        // some comment
    }
}
	