<?php "$a[
