<?php
$s = 'ab	cdefg€hÿi j!k#l%m&n(o)p*q+r,s-t.u/v0w9x:y;z<A=B>C?D@E[F]G^H_I|J}K~
nextline
end $ $1 $- $$ $$a $a $_b $€c $ab[0] $ab[x] $ab->c $ab-> $ab->1 {$a} { $a} {x} {{$a}} ${a} ${a[0]} ${ a} $} \$a \\$a \{$a} {\$a} $ $[ $] \' \\ \n \
 \ \
 "q" `q`';
$t = '';
$u = '\\';
$e = '\'';
