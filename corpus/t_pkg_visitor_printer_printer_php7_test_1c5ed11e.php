<?php
	[ 
		/* skip */,
		$b 
		/* skip */,
	] = $a ;