<?php
class Old {
    var $a;
    var $b = 1, $c = array(1, 2);
    function Old() { $this->a = 1; }
    function &getRef() { return $this->a; }
    static function s() { }
}
$o = &new Old;
$o = &new Old();
$p =& $o->getRef();
f(&$a);
f(&$a, &$b->c, $d);
$o->m(&$x);
Old::s(&$y);
$s{0}; $s{0}{1}; $s{$i + 1} = 'x';
global $$g;
$x = array(1, 2,);
list($a, list($b)) = $x;
list(, $b) = $x;
if ($a): elseif ($b): else: endif;
declare(ticks=1);
$f = function () use (&$x) { return func_get_args(); };
echo <<<EOT
$a[0] {$a['k']} ${b}
EOT;
const OLD = 1;
goto end;
end:
__halt_compiler(); raw data <?php
