<?php
namespace /* a */ Foo /* b */ \ /* c */ Bar /* d */ ;
use /* a */ A /* b */ \ /* c */ B /* d */ as /* e */ C /* f */ ;
function /* a */ f /* b */ ( /* c */ $a /* d */ , /* e */ $b /* f */ ) /* g */ : /* h */ ? /* i */ int /* j */ { /* k */ }
class /* a */ K /* b */ extends /* c */ P /* d */ implements /* e */ I /* f */ , /* g */ J /* h */ { /* i */ }
$a /* a */ -> /* b */ b /* c */ ( /* d */ ) /* e */ ;
$a # hash
    -> // slash
    b /** doc */ ;
A /* a */ :: /* b */ b /* c */ ( ) ;
new /* a */ Foo /* b */ ( /* c */ 1 /* d */ ) ;
$x = /* a */ [ /* b */ 1 /* c */ , /* d */ 2 /* e */ ] /* f */ ;
if /* a */ ( /* b */ $a /* c */ ) /* d */ { /* e */ } /* f */ else /* g */ { /* h */ }
echo 1 /* before close */ ?>
<?php echo 2 // line before close ?>
<?php echo 3 # hash before close ?>
<?php /* only comment */ ?>
<?php // only line comment
?>
<?php
/** doc for function */
function g() { }
/** doc for class */
class D {
    /** doc for const */
    const C = 1;
    /** doc for prop */
    public $p;
    /** doc for method */
    function m() { }
}
// trailing comment without newline
