<?php
	unset ( $a ) ;
	unset ( $a , $b , ) ;