<?php yield 
