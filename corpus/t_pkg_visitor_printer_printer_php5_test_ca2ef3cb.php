<?php
	empty ( $a ) ;