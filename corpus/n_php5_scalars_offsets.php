<?php
echo array(1, 2)[0];
echo array(1, array(2))[1][0];
echo [1, 2][0];
echo [1, [2]][1][0];
echo [[1]][0][0][0];
echo "abc"[0];
echo 'abc'[1];
echo FOO[0];
echo \FOO[0];
echo namespace\FOO[0];
echo Foo\BAR;
echo \Foo\BAR;
echo namespace\Foo\BAR;
echo __CLASS__, __TRAIT__, __FUNCTION__, __METHOD__, __LINE__, __FILE__, __DIR__, __NAMESPACE__;
$x = array();
$x = array(1,);
$x = array(&$a, 'k' => &$b, 2, 'j' => 3, &$c->d, 'm' => &$e[0],);
$x = [&$a, 'k' => &$b, 2, 'j' => 3, &$c, 'm' => &$e];
$x = [];
$x = <<<EOT
EOT;
$x = <<<'EOT'
EOT;
$x = <<<"EOT"
plain
EOT;
