<?
		if ($a) :
		endif;