<!DOCTYPE html>
<html>
<head><title><?php echo $title; ?></title></head>
<body>
<?php if ($x) { ?>
  <p><?= $y ?></p>
<?php } ?>
<? short_tag(); ?>
<?php
// trailing comment without newline at the close ?>
text # not comment
<?php /* block */ /** doc */ # hash
// line
echo 1;
