<?php
namespace App\Report;

echo wrap("x"), MAX_WIDTH;
$t = new Table;
use function Lib\Text\wrap;
use const Lib\Text\MAX_WIDTH;
use Lib\Table;
echo wrap("y"), MAX_WIDTH, strlen("x"), PHP_EOL;
$u = new Table(wrap(MAX_WIDTH));
function late(Table $t): Table { return wrap($t); }
