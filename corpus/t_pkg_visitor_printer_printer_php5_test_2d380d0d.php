<?php
	class foo {
		use \ foo , bar ;
		use foo , \ bar { }
		use \ foo , \ bar {
			foo :: a as b ;
			bar :: a insteadof foo ;
			foo :: c as public ;
			foo :: d as public e;
			f as g ;
		}
	}