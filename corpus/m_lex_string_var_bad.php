<?php
echo "$a[ 0]";
echo "$a[0 ]";
echo "$a[\]";
echo "$a[']";
echo "$a[#]";
echo "$a[	]";
echo "$a[
]";
echo "$a[;] $a[:] $a[,] $a[.] $a[(] $a[)] $a[|] $a[/] $a[^] $a[&] $a[+] $a[*] $a[=] $a[%] $a[!] $a[~] $a[$] $a[<] $a[>] $a[?] $a[@] $a[[]";
echo "$a[{] $a[}] $a[] $a[] $a[`] $a["]";
echo "$a[]";
echo "$a[0.5] $a[1e3] $a[0x] $a[0b] $a[0b2] $a[1_] $a[_1] $a[1a]";
echo "$a[b c] $a[b-c] $a[$b$c] $a[$] $a[$1]";
echo "${a b} ${a";
echo "${a[0}";
echo "${";
echo "$a[0X1] $a->b[0] $a->b->c $a->b->c->d[1]";
