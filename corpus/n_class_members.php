<?php
abstract class C extends \P\Q implements I, \J\K, namespace\L {
    const A = 1;
    public const B = 2, B2 = 3;
    protected const C = self::A + 1;
    private const D = [1, 2];
    public $a;
    public $b = 1, $c, $d = [self::A];
    protected static $e;
    private static $f = 'x';
    static public $g;
    var $h;
    var $i = 1, $j;
    public int $k;
    public ?int $l = null;
    protected static ?\Foo\Bar $m, $n = null;
    private array $o = [];
    public static iterable $p;
    public self $q;
    public ?self $r;
    private namespace\T $s;
    var float $t = 1.0;
    function m1() { }
    public function m2(): void { }
    protected static function m3(): static_t { }
    private final function m4() { }
    final public static function m5() { }
    abstract function m6();
    abstract protected function &m7(int $a): ?int;
    static function &m8() { }
    public function __construct(private_t $x = null) { }
    /** doc */
    public function m9() { }
}
final class F { }
abstract class A { }
class E extends C { }
class G implements I { }
interface I1 { const X = 1; public function f(); static function g(int $a): void; }
interface I2 extends I1 { }
interface I3 extends I1, \I2, namespace\I4 { public const Y = 2; }
trait T1 { public $p; abstract function f(); static function g() { } use T0; }
