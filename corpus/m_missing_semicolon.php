<?php
$a = 1
$b = 2;
echo $a $b;
function ok() { return 1; }
ok();
