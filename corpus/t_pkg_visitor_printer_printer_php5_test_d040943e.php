<?php
	- $a ;
	+ $a ;