<?php
function outer(): void {
    function inner_fn(int $a): int { return $a; }
    class InnerClass { }
    abstract class InnerAbs { }
    final class InnerFinal extends InnerAbs implements \Countable, \ArrayAccess { }
    trait InnerTrait { }
    interface InnerIface { }
    interface InnerIface2 extends InnerIface, \Traversable { }
    if (true) {
        function cond_fn() { }
        class CondClass extends InnerClass { }
    }
}
switch ($x) { case 1: function in_case() { } class InCase { } }
