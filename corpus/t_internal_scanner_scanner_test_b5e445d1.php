<?php
	<<<"CAT"
	CAT
CAT;