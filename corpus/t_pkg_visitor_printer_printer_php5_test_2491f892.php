<?php
	if ( 1 ) ;
	elseif ( 2 ) {
		;
	}
	else if ( 3 ) $a;
	else { }