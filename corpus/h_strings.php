<?php
$s = "a $b c {$d} ${e} ${f[1]} $g[0] $h[abc] $i[$j] $k->l {$m->n()} \" \$ \{$";
$t = 'single $no \' esc';
$u = `ls -la $dir {$x}`;
$v = "$a[-1] $b->c->d";
$w = b"binary $x";
$x = "\u{1F600} \x41 \101";
