<?php
	null ;
	