<?php b"
 A
]