 from
		yield
		include
		include_once
		require
		require_once

		__CLASS__
		__DIR__
		__FILE__
		__FUNCTION__
		__LINE__
		__NAMESPACE__
		__METHOD__
		__TRAIT__
		__halt_compiler

		new
		and
		or
		xor

		\
		...
		::
		&&
		||
		&=
		|=
		.=
		*=
		**=
		/=
		+=
		-=
		^=
		%=
		--
		++
		=>
		<=>
		!=
		<>
		!==
		==
		===
		<<=
		>>=
		>=
		<=
		**
		<<
		>>
		??

		#  inline comment
		// inline comment

		/*
			multiline comment
		*/

		/**
		 * PHP Doc comment
		 */

		;
		:
		,
		.
		[
		]
		(
		)
		|
		/
		^
		&
		+
		-
		*
		=
		%
		!
		~
		$
		<
		>
		?
		@
		{
		}

		$var
		str

		-> 