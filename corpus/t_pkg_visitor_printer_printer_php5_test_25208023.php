<?php
	$a  = static function & ( ) {
		// do nothing
	} ;
	