<? '
	$test
	';