<?php
$héllo = "wörld";
function ünï() { return 'ß'; }
class Ñ { const Ω = 1; }
$a = "ÿþ binary"; 
