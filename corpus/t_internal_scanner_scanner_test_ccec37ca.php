<?php #test
$a