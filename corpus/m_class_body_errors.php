<?php
class A { public }
class B { public function }
class C { function f() }
class D { const }
class E { const X }
class F { const X = ; }
class G { public $a = ; }
class H { use ; }
class I { use T { a as ; } }
class J { use T { a insteadof ; } }
class K { abstract abstract function f(); }
class L { $a; }
class M { echo 1; }
class N extends { }
class O implements { }
class P extends A, B { }
class { }
class 1 { }
interface Q { public $a; }
interface R extends { }
trait S extends A { }
abstract final class T { }
class U { function __construct(private $x) { } }
class V { public function f(); private function g() { } final abstract function h(); }
echo "ok";
