<?php
	foo ( ) ;
	\ foo ( ) ;
	namespace \ foo ( ) ;
	