<?php
# hash ab	cdefg€hÿi j!k#l%m&n(o)p*q+r,s-t.u/v0w9x:y;z<A=B>C?D@E[F]G^H_I|J}K~
// slash ab	cdefg€hÿi j!k#l%m&n(o)p*q+r,s-t.u/v0w9x:y;z<A=B>C?D@E[F]G^H_I|J}K~# cr ended
// crlf ended
/* block ab	cdefg€hÿi j!k#l%m&n(o)p*q+r,s-t.u/v0w9x:y;z<A=B>C?D@E[F]G^H_I|J}K~
 * next  cr 
 crlf ** / * /* nested? */
/**/ /***/ /** doc */ /*** not doc? ***/ /** 
 * @x
 */
$a = 1; # trailing ?> <p>html</p> <?php // another ?>
<?php # ? > not close ?x
// ends with ? 
// ?
#
//
/* ?> still comment */ $b = 2;
#?>
<?php //?>
<?php /** */ /* * */ /*/ */ echo 1; // final without newline