<?php
	'Hello' ;
	"Hello {$world } " ;
	