<?php
function f() {
    if ($a) {
        while ($b) {
            foreach ($c as $d) {
                switch ($e) {
                    case 1:
                        try {
                            echo 1;
