<? ;
	/* Foo */
	Foo ( ) ;
	