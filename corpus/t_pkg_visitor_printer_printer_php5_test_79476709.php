<?php
	"test {$foo }" ;
	"test {$foo [ ] }" ;
	"test {$foo [ 1 ] }" ;
	"test {$foo -> bar }" ;
	"test {$foo -> bar ( ) }" ;
	