<?php
namespace App;
use Foo\{A, B,};
use \Foo\{A, B,};
use \Foo\{A as X, B\C as Y};
use Foo\Bar\{function f, const C, D,};
use \Foo\Bar\{function f as g, const C as K, D as E,};
use function Foo\{f1, f2 as g2,};
use const Foo\{C1, C2 as K2};
use function \Foo\{f3};
use const \Foo\{C3,};
use Foo, Bar as Baz, \Qux;
use function f4, f5 as g5, \ns\f6;
use const C4, C5 as K5, \ns\C6;
