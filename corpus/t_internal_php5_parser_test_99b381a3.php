<? <<<CAD
CAD;
