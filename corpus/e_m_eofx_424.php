<?php <<<A

|