<?php
$v = <<<'E4'xE4;
$w = <<<E5$aE5;
