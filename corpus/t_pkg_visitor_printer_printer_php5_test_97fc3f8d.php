<?php
	function & foo ( $a , & $b = null , ... $c ) {
		;
	}