<?php
	$a ? $b : $c ;
	$a ? : $c ;