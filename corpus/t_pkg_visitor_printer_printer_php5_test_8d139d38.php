<?php
	$a -> b ;