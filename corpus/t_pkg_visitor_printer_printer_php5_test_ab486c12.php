<?php
	exit ;
	exit ( ) ;
	exit (1) ;
	exit ( 1 ) ;
	die ;
	die ( ) ;
	die (1) ;
	die ( 1 ) ;
	