<?php
$a = "unterminated $x {$y
$b = 1;
