<?php
	yield $a ;
	yield $k => $v ;