<? <<<CAD
	hello
CAD;
