<?php __halt_compiler()
