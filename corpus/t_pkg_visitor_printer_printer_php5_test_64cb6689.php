<?php
	class Foo {
		/**
		 * abstract method
		 */
		public static function & greet ( $a ) ;
		
		function greet ( $a )
		{
			return 'hello' ;
		}
	}