<?
		try {}