<?php
$a = <<<'A"
x
A;
$a = <<<"B'
x
B;
$a = <<<C'
x
C;
$a = <<<1D
x
1D;
$a = <<<'1E'
E;
$a = <<< 
F;
$a = <<<G H
G;
$a = <<<'I
I;
$a = <<<"J
J;
$a = <<<K;
K;
$a = <<<L
L;
$a = <<<''
;
$a = <<<""
;
$a = <<<' M'
M;
$a = b <<<N
N;
$a = <<<O x
