#!/usr/bin/env php
	<?php
	$a;?>test<? 