<? <<<'LBL'
test $var
LBL;
