<?php
	list( , $var , ) = $b ;