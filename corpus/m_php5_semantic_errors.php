<?php
foreach ($a as &$k => $v) { }
foreach (array(1) as &$k => $v) { }
foreach ($a as &$k => &$v) : endforeach;
trait T1 extends A { }
trait T2 implements B { }
trait T3 extends A implements B, C { }
isset(1 + 2);
isset(f() . 'x', $a);
