html only
