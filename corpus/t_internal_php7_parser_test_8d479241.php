<?
		if ($a) :
		endif;
	