<?
		"test";
		"\$test";
		"
			test
		";
		'$test';
		'
			$test
		';
	