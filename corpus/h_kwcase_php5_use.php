<?php
NAMESPACE Legacy;
USE FUNCTION Old\Lib\fmt;
Use Const Old\Lib\LIMIT;
USE Old\Lib\Thing AS T;
ECHO fmt(LIMIT), strlen("x");
$o = NEW T(fmt(1));
IF ($o InstanceOf T) { PRINT fmt(2); } ELSEIF (ISSET($o)) { ECHO LIMIT; } ELSE { UNSET($o); }
FOREACH (ARRAY(1, 2) AS $k => $v) { ECHO $k; }
