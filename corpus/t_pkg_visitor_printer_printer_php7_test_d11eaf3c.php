<?php
	$a  = static function & ( ) : void {
		// do nothing
	} ;
	