<?php
	Foo :: $bar ;