<?php
	"test ${ foo }" ;
	"test ${ foo . 'bar' }" ;
	"test ${ foo [ ] }" ;
	"test ${ foo [ 1 ] }" ;
	"test ${ foo [ 'expr' . $bar ] }" ;
	"test ${ $foo }" ;
	"test ${ $foo -> bar }" ;
	"test ${ $foo -> bar ( ) }" ;
	"test ${ $a . '' }" ;
	