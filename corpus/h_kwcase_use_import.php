<?php
NameSpace App\Strings;

USE Function Vendor\Strings\length, Vendor\Strings\pad AS lpad;
Use CONST Vendor\Limits\max, Vendor\Limits\MIN;
use Vendor\{FUNCTION Text\wrap, Const Text\WIDTH, Text\Table};
Use Function Vendor\Arr\first;

ECHO length("abc"), lpad("x", 3), wrap("y"), first([1]), max, MIN, WIDTH;
$t = NEW Table(length(max));
FUNCTION local(Table $t): Table { RETURN wrap($t); }
