<?php
	yield from $a