<?php
(new Foo)->bar;
(new Foo)->bar();
(new Foo)->bar->baz;
(new Foo)->bar()->baz();
(new Foo)[0];
(new Foo)[0][1];
(new Foo)[0]->bar;
(new Foo)[0][1]->bar->baz();
(new Foo)[0]->bar[1]->baz()[2];
(new Foo(1, 2))->a()->b[0]->c();
(new Foo);
(new $cls)->x;
(new $a->b)->y;
(new static)->z();
$x = (new Foo)->bar[0] + 1;
(new Foo)->b[0]();
(new Foo)->b[0]()->c[1]();
(new Foo)[0]->b[1]()[2];
