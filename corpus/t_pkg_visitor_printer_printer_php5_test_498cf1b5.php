<?php
	__halt_compiler ( ) ;
	this text is ignored by parser
	