<?php
function f() {
    $a = 1;
    __halt_compiler();
    $b = 2;
}
if ($x) { __halt_compiler(); }
echo 1;
