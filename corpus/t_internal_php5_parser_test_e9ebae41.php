<?
		try {} catch (Exception $e) {} catch (RuntimeException $e) {}