<?php
	namespace Foo \ Bar ; 
	namespace Baz {

	}
	namespace {
		
	}
	