<?php
$x = 1;
$a = <<<EOT
    indented body $x and {$x}
      deeper
    EOT;
echo $a;
$b = <<<'NOW'
  raw $x
  NOW;
echo $b, "\n";
