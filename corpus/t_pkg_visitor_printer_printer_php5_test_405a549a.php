<?php
	class Foo {
		function bar ( )
		{
			return null ;
		}
	}

	function foo ( )
	{
		return $a ;
	}

	function bar ( )
	{
		return ;
	}
	