<?php
__halt_compiler() ?>
trailing <?php echo 1;