<?php
	<<<CAT
	test
CAT;

	<<<'CAT'
	test
CAT;

	<<<"CAT"
	$var->prop
	$var[1]
	$var[0x1]
	$var[0b1]
	$var[var_name]
	$var[$var]

	{$var}
	${var_name}
	{s $ \$a 
CAT;
	