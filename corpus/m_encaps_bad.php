<?php
echo "$a->b->c";
echo "$a[-1]";
echo "$a[ 0]";
echo "$a[0";
echo "$a[b c]";
echo "$a['k']";
echo "$a[\x]";
echo "$a[#]";
echo "$a[+]";
echo "$a[1.5]";
echo "$a[%]";
echo "${a";
echo "{$a";
echo "$a[€]";
