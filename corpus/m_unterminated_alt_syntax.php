<?php
if ($a):
    echo 1;
elseif ($b):
    while ($c):
        for (;;):
            foreach ($d as $e):
                switch ($f):
                    case 1:
                        declare(ticks=1):
                            echo 2;
