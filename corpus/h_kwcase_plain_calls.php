<?php
namespace App\Other;

echo length("abc"), lpad("x", 3), wrap("y"), first([1]), max, MIN, WIDTH;
$t = new Table(length(max));
function local(Table $t): Table { return wrap($t); }
echo \strlen("x"), namespace\helper(), PHP_EOL, E_ALL;
