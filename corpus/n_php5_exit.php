<?php
exit;
exit();
exit(1);
exit($a);
exit("x" . $y);
die;
die();
die(2);
$a or die();
$a or exit(f());
$a and die;
exit((yield $x));
EXIT;
Die(0);
