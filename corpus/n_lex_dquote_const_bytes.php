<?php
$s = "ab	cdefg€hÿi j!k#l%m&n(o)p*q+r,s-t.u/v0w9x:y;z<A=B>C?D@E[F]G^H_I|J}K~
nextline
end $ $1 $$ $- $; {x} { $ } {} \$a \{$ {\$a} $\a $
 $ {
 { {\n \
 \ \
 'q' `q`";
$t = "";
$u = b"bin";
$v = B"BIN $";
$w2 = "$";
$x = "{";
$y = "a$";
$z = "a{";
$z2 = "$\"";
$z3 = "{\"";
