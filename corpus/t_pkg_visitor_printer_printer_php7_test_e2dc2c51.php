<?php
	static $a , $b = foo ( ) ;
	