<?php

	new Foo ;

	new Foo ( $a, $b ) ;

	new class ( $c ) extends Foo implements Bar , Baz {

	} ; 