<?php
	//test?> test