<?php
namespace A {
    use X\Y;
    class C extends Y { }
    function f(Y $y): Y { return namespace\g(); }
    echo namespace\K, Y\Z::class;
}
namespace A\B\C {
    use X\Y as Z;
    new Z; new Z\W; new namespace\V; new \Q;
}
namespace {
    use X\Y;
    use function X\f;
    use const X\K;
    new Y; new Y\Sub; f(); K; namespace\g(); new namespace\H; \i();
    class G extends Y implements Y\I { }
}
namespace Empty1 { }
namespace {
}
