<?php <<<EOT
$a