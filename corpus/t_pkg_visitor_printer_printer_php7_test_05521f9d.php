<?php
	class Foo {
		public const FOO = 'f' , BAR = 'b' ;
	}