<?php ) ; echo 1; function f() { ] ; return 1; } if ($a) { ?? ; b(); } echo 2;
