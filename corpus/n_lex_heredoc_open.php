<?php
$a = <<<A
x
A;
$a = <<< A
x
A;
$a = <<<	 B1_
x
B1_;
$a = <<<'C'
x
C;
$a = <<<  "D"
x
D;
$a = b<<<E
x
E;
$a = B<<<'F'
x
F;
$a = b<<<"G"
x
G;
$a = <<<_
x
_;
$a = <<<H
x
H;
f(<<<I
x
I
);
$a = [<<<J
$x
J
, <<<'K'

K
];
$a = <<<L

L
. 'x';
