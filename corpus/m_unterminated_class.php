<?php
namespace N {
    class A extends B {
        public function f($a, $b
