<?php
exit;
exit();
exit(1);
exit($a . "x");
die;
die();
die("msg");
$a or die();
$a or exit;
$x = ``;
$x = `ls`;
$x = `ls $a`;
$x = `$a`;
$x = `${a}`;
$x = `{$a->b} and $c[0] and $d->e and ${f[1]}`;
$x = `multi
line $a
`;
$x = `a\`b`;
