<?php #A;

