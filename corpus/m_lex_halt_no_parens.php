<?php
__halt_compiler;
echo 1;
__halt_compiler(;
echo 2;
__halt_compiler()echo 3;
__halt_compiler(1);
__halt_compiler[0];
__halt_compiler ( /* c */ ) ;
echo 4;
