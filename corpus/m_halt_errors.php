<?php
$a = ;
__halt_compiler()
 garbage ) (