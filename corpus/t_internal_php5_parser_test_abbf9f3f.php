<? "
	test
	";