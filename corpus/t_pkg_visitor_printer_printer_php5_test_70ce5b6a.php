<?php
	~ $var ;
	