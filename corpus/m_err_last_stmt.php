<?php
echo 1;
function f() { return 1; ) }
if ($a) { b(); ] }
while ($x) { c(); => }
echo 2; )
