<?php
$a = <<<EOT
    indented body $x and {$y->z[1]} and ${w} and $v[0] and $u->t
      deeper \$escaped \{$not} {not} $ alone
    EOT;
$b = <<<'NOW'
      raw $x {$y} ${z}
      NOW;
$c = [<<<A
  one
  A, <<<B
  two $x
  B];
f(<<<X
	tab indented
	X, 2);
$d = <<<"Q"
 q $x[k] $x[1] $x[$i] $x[-2]
 Q . 'tail';
$e = <<<E
E1 not the end
 E_ still not
  E;
