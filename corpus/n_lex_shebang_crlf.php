#!/usr/bin/php
#!second line is html
<?= 1 ?>
#!x