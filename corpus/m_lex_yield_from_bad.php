<?php
function g() {
 yield from;
 yield from from f();
 yield /* c */ from f();
 yield fromf();
 yield
}
yield fr