<?php
abstract abstract;abstract[abstract|abstract	abstract
abstract0;abstractz;abstractZ;abstract_;abstract;
ABSTRACT ABSTRACT;ABSTRACT[ABSTRACT|ABSTRACT	ABSTRACT
ABSTRACT0;ABSTRACTz;ABSTRACTZ;ABSTRACT_;ABSTRACT;array 
array;array[array|array	array
array0;arrayz;arrayZ;array_;array;ARRAY ARRAY;ARRAY[ARRAY|ARRAY	ARRAY
ARRAY0;
ARRAYz;ARRAYZ;ARRAY_;ARRAY;as as;as[as|as	as
as0;asz;asZ;as_;as;AS AS;AS[AS|AS	AS
AS0;ASz;ASZ;AS_;AS;break 
break;break[break|break	break
break0;breakz;breakZ;break_;break;BREAK BREAK;BREAK[BREAK|BREAK	BREAK
BREAK0;
BREAKz;BREAKZ;BREAK_;BREAK;callable callable;callable[callable|callable	callable
callable0;callablez;
callableZ;callable_;callable;CALLABLE CALLABLE;CALLABLE[CALLABLE|CALLABLE	CALLABLE
CALLABLE0;CALLABLEz;
CALLABLEZ;CALLABLE_;CALLABLE;case case;case[case|case	case
case0;casez;caseZ;case_;case;CASE CASE;CASE[CASE|
CASE	CASE
CASE0;CASEz;CASEZ;CASE_;CASE;catch catch;catch[catch|catch	catch
catch0;catchz;catchZ;catch_;
catch;CATCH CATCH;CATCH[CATCH|CATCH	CATCH
CATCH0;CATCHz;CATCHZ;CATCH_;CATCH;class class;class[class|class	
class
class0;classz;classZ;class_;class;CLASS CLASS;CLASS[CLASS|CLASS	CLASS
CLASS0;CLASSz;CLASSZ;CLASS_;
CLASS;clone clone;clone[clone|clone	clone
clone0;clonez;cloneZ;clone_;clone;CLONE CLONE;CLONE[CLONE|CLONE	
CLONE
CLONE0;CLONEz;CLONEZ;CLONE_;CLONE;const const;const[const|const	const
const0;constz;constZ;const_;
const;CONST CONST;CONST[CONST|CONST	CONST
CONST0;CONSTz;CONSTZ;CONST_;CONST;continue continue;continue[
continue|continue	continue
continue0;continuez;continueZ;continue_;continue;CONTINUE CONTINUE;CONTINUE[
CONTINUE|CONTINUE	CONTINUE
CONTINUE0;CONTINUEz;CONTINUEZ;CONTINUE_;CONTINUE;declare declare;declare[declare|
declare	declare
declare0;declarez;declareZ;declare_;declare;DECLARE DECLARE;DECLARE[DECLARE|DECLARE	DECLARE

DECLARE0;DECLAREz;DECLAREZ;DECLARE_;DECLARE;default default;default[default|default	default
default0;
defaultz;defaultZ;default_;default;DEFAULT DEFAULT;DEFAULT[DEFAULT|DEFAULT	DEFAULT
DEFAULT0;DEFAULTz;
DEFAULTZ;DEFAULT_;DEFAULT;do do;do[do|do	do
do0;doz;doZ;do_;do;DO DO;DO[DO|DO	DO
DO0;DOz;DOZ;DO_;DO;echo 
echo;echo[echo|echo	echo
echo0;echoz;echoZ;echo_;echo;ECHO ECHO;ECHO[ECHO|ECHO	ECHO
ECHO0;ECHOz;ECHOZ;ECHO_;
ECHO;else else;else[else|else	else
else0;elsez;elseZ;else_;else;ELSE ELSE;ELSE[ELSE|ELSE	ELSE
ELSE0;ELSEz;
ELSEZ;ELSE_;ELSE;elseif elseif;elseif[elseif|elseif	elseif
elseif0;elseifz;elseifZ;elseif_;elseif;ELSEIF 
ELSEIF;ELSEIF[ELSEIF|ELSEIF	ELSEIF
ELSEIF0;ELSEIFz;ELSEIFZ;ELSEIF_;ELSEIF;empty empty;empty[empty|empty	
empty
empty0;emptyz;emptyZ;empty_;empty;EMPTY EMPTY;EMPTY[EMPTY|EMPTY	EMPTY
EMPTY0;EMPTYz;EMPTYZ;EMPTY_;
EMPTY;enddeclare enddeclare;enddeclare[enddeclare|enddeclare	enddeclare
enddeclare0;enddeclarez;enddeclareZ;
enddeclare_;enddeclare;ENDDECLARE ENDDECLARE;ENDDECLARE[ENDDECLARE|ENDDECLARE	ENDDECLARE
ENDDECLARE0;
ENDDECLAREz;ENDDECLAREZ;ENDDECLARE_;ENDDECLARE;endfor endfor;endfor[endfor|endfor	endfor
endfor0;endforz;
endforZ;endfor_;endfor;ENDFOR ENDFOR;ENDFOR[ENDFOR|ENDFOR	ENDFOR
ENDFOR0;ENDFORz;ENDFORZ;ENDFOR_;ENDFOR;
endforeach endforeach;endforeach[endforeach|endforeach	endforeach
endforeach0;endforeachz;endforeachZ;
endforeach_;endforeach;ENDFOREACH ENDFOREACH;ENDFOREACH[ENDFOREACH|ENDFOREACH	ENDFOREACH
ENDFOREACH0;
ENDFOREACHz;ENDFOREACHZ;ENDFOREACH_;ENDFOREACH;endif endif;endif[endif|
