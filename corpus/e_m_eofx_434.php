<?php <<<A
$a[\{