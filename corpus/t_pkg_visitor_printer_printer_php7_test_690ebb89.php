<?php
	function & foo ( ? int $a ) {
		/* do nothing */
	}