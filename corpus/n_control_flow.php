<?php
if ($a) echo 1;
if ($a) echo 1; else echo 2;
if ($a) { } elseif ($b) { } else if ($c) { } else { }
if ($a) if ($b) echo 1; else echo 2;
while ($a) $a--;
while ($a) { break; }
do $a++; while ($a < 10);
do { continue; } while (0);
for (;;) break;
for ($i = 0; ; ) { }
for (; $i < 1; ) { }
for (; ; $i++) { }
for ($i = 0, $j = 0; $i < 1; $i++, $j++) { break 2; }
foreach ($a as $v) echo $v;
foreach (f() as $k => $v) { continue 1; }
start:
goto start;
end: echo 1;
goto end;
a: b: c: ;
return;
return 1;
return $a;
return f();
break; continue; break 1; continue 2;
;;
{ }
{ { echo 1; } }
