<?php
function g() {
    yield from f();
    yield  from f();
    yield	from f();
    yield
        from f();
    yield
from f();
    YIELD FROM f();
    Yield From [1, 2];
    $a = yield from f();
    yield fromx;
    yield fro;
    yield f;
    yield from_;
    yield from1;
    yield;
    yield $a;
    yield $k => $v;
    yieldfrom f();
    $b = yield;
    $c = (yield) + 1;
    $d = yield $k => yield $v;
    yield yield yield 1;
    return yield from g();
}
