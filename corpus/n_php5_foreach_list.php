<?php
foreach ($arr as list($a, $b)) { }
foreach ($arr as list() ) { }
foreach ($arr as list($k) => list($v)) { }
foreach ($arr as list($k) => $v) { }
foreach ($arr as $k => list($v, list($w, ), , $z)) { }
foreach (array(1, 2) as list($k) => list($v)) { }
foreach (array(1, 2) as list($k) => &$v) { }
foreach (array(1, 2) as $k => list()) { }
foreach (f() as list($a)) : endforeach;
foreach ([[1]] as list($a)) echo $a;
list() = $x;
list(, , ) = $x;
list($a, list(), list($b, list($c))) = $x;
list($a->b, $c[0], D::$e, $$f) = $x;
