<?
		switch (1) {;
			case 1; break;
			case 2; break;
		}