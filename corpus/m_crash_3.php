<?php
$a = [<<<J
$x
J
, <<<'K'
K
];
