<?php
if ($a { b(); }
if $a) { b(); }
if ($a) b(; 
while ($a { }
for ($i = 0; $i < 1; $i++ { }
for ($i = 0; $i < 1) { }
foreach ($a as $b { }
foreach ($a $b) { }
switch ($a { case 1: }
switch ($a) { case 1 }
function f( { }
function g($a { }
function h($a,) { }
function ($a) { };
$a = [1, 2;
$a = array(1, 2;
$a = f(1, 2;
$a = $b[0;
$a = $b{0;
$a = (1 + 2;
$a = 1 + 2);
isset($a;
empty($a;
list($a, $b = $c;
echo "ok";
