<?php
yield from$a->';
__halt_compiler();(<<<"A"
}";
?>
from*/<#

A;
$a->€\$}`;
