<?
		try {}
	