<?php
$a = (int) $b; $a = (integer) $b; $a = (bool) $b; $a = (boolean) $b; $a = (float) $b; $a = (double) $b; $a = (real) $b;
$a = (string) $b; $a = (binary) $b; $a = (array) $b; $a = (object) $b; $a = (unset) $b;
$a = (int) (float) "1.5"; $a = (string) -1; $a = (bool) !$b; $a = (array) f(); $a = (object) ['a' => 1]; $a = -(int) $b; $a = (int) $b ** 2;
