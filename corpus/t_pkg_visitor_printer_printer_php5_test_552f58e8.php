<?php
	$a = & $b ;
	$a = [ & $b ] ;
	$a = [ $b => & $c ] ;

	$a = function ( ) use ( & $b ) {
		// do nothing
	} ;

	foreach ( $a as & $b ) {
		// do nothing
	}