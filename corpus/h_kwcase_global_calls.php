<?php
echo length("abc"), pad("x"), wrap("y"), first([1]), max, min, width, f(), e(), F, E;
function g($a) { return length($a) + max; }
CLASS K EXTENDS Base IMPLEMENTS I { CONST c = max; PUBLIC STATIC FUNCTION m() { RETURN SELF::c + first(2); } }
