<?php
	clone $var ;
	