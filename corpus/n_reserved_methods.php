<?php
class M {
    function include() {} function include_once() {} function eval() {} function require() {} function require_once() {}
    function or() {} function xor() {} function and() {} function instanceof() {} function new() {} function clone() {}
    function exit() {} function die() {} function if() {} function elseif() {} function else() {} function endif() {}
    function echo() {} function do() {} function while() {} function endwhile() {} function for() {} function endfor() {}
    function foreach() {} function endforeach() {} function declare() {} function enddeclare() {} function as() {}
    function try() {} function catch() {} function finally() {} function throw() {} function use() {} function insteadof() {}
    function global() {} function var() {} function unset() {} function isset() {} function empty() {} function continue() {}
    function goto() {} function function() {} function const() {} function return() {} function print() {} function yield() {}
    function list() {} function switch() {} function endswitch() {} function case() {} function default() {} function break() {}
    function array() {} function callable() {} function extends() {} function implements() {} function namespace() {}
    function trait() {} function interface() {} function class() {} function fn() {}
    function __CLASS__() {} function __TRAIT__() {} function __FUNCTION__() {} function __METHOD__() {}
    function __LINE__() {} function __FILE__() {} function __DIR__() {} function __NAMESPACE__() {}
    public static function static() {} function abstract() {} function final() {} function private() {} function protected() {} function public() {}
}
M::include(); M::new(); M::list(); M::array(); M::class(); M::static(); M::fn(); M::print(); M::exit();
$m->include(); $m->new(); $m->list(); $m->class; $m->static; $m->function;
