<?php
	use Foo ;
	use \ Foo as Bar ;
	use function \ Foo as Bar ;
	use const Foo as Bar, baz ;
	