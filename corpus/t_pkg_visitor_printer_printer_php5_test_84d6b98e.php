<?php
	throw new \ Exception ( "msg" ) ;