<?php
	while ( $a ) echo '' ;
	while ( $a ) { }
	while ( $a ) ;
	