just some text
with lines
