<?php
	// "test $foo" ;
	"test $foo[1]" ;
	"test $foo[-1]" ;
	"test $foo[112345678901234567890] " ;
	"test $foo[-112345678901234567890] " ;
	"test $foo[a]" ;
	"test $foo[$bar]" ;
	"test $foo->bar" ;
	