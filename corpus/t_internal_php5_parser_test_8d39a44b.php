<?
		switch (1) :;
			case 1;
			case 2;
		endswitch;