<?php
	$var :: CONSTANT ;
	