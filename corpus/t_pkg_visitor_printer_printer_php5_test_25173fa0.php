<?php
	for ( $i = 0 ; $i < 3 ; $i ++ ) 
		echo $i . PHP_EOL;
	
	for ( ; ; ) {

	}