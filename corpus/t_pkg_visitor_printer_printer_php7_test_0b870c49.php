<?php
	function & foo (
		? int $a , & $b = null
		, \ Foo ...$c
	) : namespace  \ Bar \  baz \ quuz{
		;
	}