<?php
echo 1;
echo 1, 2, 3;
echo $a . $b, "x", 'y', f();
echo(1);
echo (1), (2);
print 1;
print(1);
print $a . $b;
$x = print 1;
print print print 1;
1 and print 2;
echo print 1, print 2;
?><?= 1 ?><?= 1, 2 ?><?= $a ?: 'b'; ?><?= f() ?>
<?php
exit; exit(); exit(0); exit("bye"); die; die(); die(1); die("x" . $y);
$a or exit; $a or die("no"); $a ?: exit(1);
