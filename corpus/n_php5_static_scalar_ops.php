<?php
const A = 1 + 2, B = 3 - 1, C = 2 * 3, D = 2 ** 3, E = 6 / 2, F = 7 % 2;
const G = !true, H = ~1, I = 1 | 2, J = 1 & 3, K = 1 ^ 2, L = 1 << 2, M = 8 >> 1;
const N = "a" . "b", O = true xor false, P = true and false, Q = true or false;
const R = true && false, S = true || false, T = 1 === 1, U = 1 !== 2, V = 1 == 1, W = 1 != 2, W2 = 1 <> 2;
const X = 1 < 2, Y = 2 > 1, Z = 1 <= 2, AA = 2 >= 1;
const AB = 1 ?: 2, AC = 1 ? 2 : 3, AD = +1, AE = -1, AF = (1 + 2) * 3;
const AG = A[0], AH = array(1, 2)[0], AI = [1, 2][1], AJ = "str"[0];
class K1 {
    const C1 = self::C2 . 'x', C2 = \Foo\BAR, C3 = namespace\BAZ, C4 = Foo\QUX;
    const C5 = __CLASS__, C6 = self::class, C7 = static::class, C8 = \Foo\Bar::class, C9 = namespace\Foo::class;
    const C10 = array(), C11 = array(1, 2 => 3, 'k' => array('n'),), C12 = [], C13 = [1, 'a' => 2, [3],];
    const C14 = __LINE__ + __FILE__ . __DIR__ . __TRAIT__ . __METHOD__ . __FUNCTION__ . __NAMESPACE__;
    const C15 = <<<'EOT'
nowdoc text
EOT;
    const C16 = <<<EOT
EOT;
    public $p1 = 1 + 2 * 3, $p2 = -1.5e3, $p3 = array(A => B, C), $p4 = Foo::BAR | Foo::BAZ;
    var $p5 = !A, $p6;
    static $p7 = (1);
    function m($a = A + 1, $b = self::C1, $c = array(1 << 2), $d = [A ? B : C]) {
        static $s1, $s2 = 1, $s3 = A * 2, $s4;
        static $s5 = array(1, 2);
    }
}
declare(ticks = 1 + 1);
declare(ticks = 1, encoding = 'UTF-8');
