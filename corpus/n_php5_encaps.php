<?php
echo "$a";
echo "$a[0]";
echo "$a[b]";
echo "$a[$b]";
echo "$a[0x1F]";
echo "$a[0b11]";
echo "$a[012]";
echo "$a[99999999999999999999]";
echo "$a->b";
echo "${a}";
echo "${a[0]}";
echo "${a['k']}";
echo "${a . 'b'}";
echo "${$a}";
echo "${f()}";
echo "{$a}";
echo "{$a->b[0]}";
echo "{$a->b()}";
echo "{$a::$b}";
echo "{$a['k']['j']}";
echo "pre $a mid {$b} ${c} post";
echo "\$a \{$a} \\$a {\$a}";
echo `ls $a ${b} {$c->d} $e[0] $f->g`;
echo ``;
echo `plain`;
echo <<<EOT
x $a y $a[0] z $a->b ${a} ${a[1]} {$a->b[2]}
EOT;
