<?php
	$a -> bar ( $arg ) ;