<?php
namespace A {
    use function X\f;
    use const X\C;
    use X\K;
    f(); echo C; new K; K::m(); echo K::D;
}
namespace B {
    f(); echo C; new K; g();
    try { f(); } catch (K $e) { } catch (\Exception | E2 $e) { }
}
namespace {
    f(); echo C; new K;
    use function Y\g;
    use const Y\{C, D};
    g(); echo C, D;
    $x instanceof K;
}
