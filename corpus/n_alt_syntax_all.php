<?php
if ($a): endif;
if ($a): echo 1; endif;
if ($a): echo 1; else: echo 2; endif;
if ($a): echo 1; elseif ($b): echo 2; endif;
if ($a): elseif ($b): elseif ($c): else: endif;
if ($a): if ($b): echo 1; endif; else: if ($c) { } endif;
while ($a): endwhile;
while ($a): echo 1; break; endwhile;
for (;;): endfor;
for ($i = 0, $j = 1; $i < 10, $j < 5; $i++, $j--): continue 2; endfor;
foreach ($a as $b): endforeach;
foreach ($a as $k => &$v): echo $k; endforeach;
switch ($a): endswitch;
switch ($a): case 1: echo 1; break; case 2; default: echo 3; endswitch;
switch ($a): ; case 1: endswitch;
switch ($a) { ; case 1: }
switch ($a) { default; }
switch ($a) { }
?>
<?php if ($a): ?>A<?php elseif ($b): ?>B<?php else: ?>C<?php endif ?>
<?php foreach ($a as $b): ?><?= $b ?><?php endforeach; ?>
<?php while ($a): ?>W<?php endwhile ?>
<?php for (;;): ?>F<?php endfor ?>
<?php switch ($a): ?>
<?php case 1: ?>one<?php break ?>
<?php endswitch ?>
