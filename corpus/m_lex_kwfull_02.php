<?php
endif	endif
endif0;endifz;endifZ;endif_;endif;ENDIF ENDIF;ENDIF[ENDIF|ENDIF	ENDIF
ENDIF0;ENDIFz;ENDIFZ;
ENDIF_;ENDIF;endswitch endswitch;endswitch[endswitch|endswitch	endswitch
endswitch0;endswitchz;endswitchZ;
endswitch_;endswitch;ENDSWITCH ENDSWITCH;ENDSWITCH[ENDSWITCH|ENDSWITCH	ENDSWITCH
ENDSWITCH0;ENDSWITCHz;
ENDSWITCHZ;ENDSWITCH_;ENDSWITCH;endwhile endwhile;endwhile[endwhile|endwhile	endwhile
endwhile0;endwhilez;
endwhileZ;endwhile_;endwhile;ENDWHILE ENDWHILE;ENDWHILE[ENDWHILE|ENDWHILE	ENDWHILE
ENDWHILE0;ENDWHILEz;
ENDWHILEZ;ENDWHILE_;ENDWHILE;eval eval;eval[eval|eval	eval
eval0;evalz;evalZ;eval_;eval;EVAL EVAL;EVAL[EVAL|
EVAL	EVAL
EVAL0;EVALz;EVALZ;EVAL_;EVAL;exit exit;exit[exit|exit	exit
exit0;exitz;exitZ;exit_;exit;EXIT EXIT;
EXIT[EXIT|EXIT	EXIT
EXIT0;EXITz;EXITZ;EXIT_;EXIT;die die;die[die|die	die
die0;diez;dieZ;die_;die;DIE DIE;
DIE[DIE|DIE	DIE
DIE0;DIEz;DIEZ;DIE_;DIE;extends extends;extends[extends|extends	extends
extends0;extendsz;
extendsZ;extends_;extends;EXTENDS EXTENDS;EXTENDS[EXTENDS|EXTENDS	EXTENDS
EXTENDS0;EXTENDSz;EXTENDSZ;
EXTENDS_;EXTENDS;final final;final[final|final	final
final0;finalz;finalZ;final_;final;FINAL FINAL;FINAL[
FINAL|FINAL	FINAL
FINAL0;FINALz;FINALZ;FINAL_;FINAL;finally finally;finally[finally|finally	finally
finally0;
finallyz;finallyZ;finally_;finally;FINALLY FINALLY;FINALLY[FINALLY|FINALLY	FINALLY
FINALLY0;FINALLYz;
FINALLYZ;FINALLY_;FINALLY;for for;for[for|for	for
for0;forz;forZ;for_;for;FOR FOR;FOR[FOR|FOR	FOR
FOR0;FORz;
FORZ;FOR_;FOR;foreach foreach;foreach[foreach|foreach	foreach
foreach0;foreachz;foreachZ;foreach_;foreach;
FOREACH FOREACH;FOREACH[FOREACH|FOREACH	FOREACH
FOREACH0;FOREACHz;FOREACHZ;FOREACH_;FOREACH;function 
function;function[function|function	function
function0;functionz;functionZ;function_;function;FUNCTION 
FUNCTION;FUNCTION[FUNCTION|FUNCTION	FUNCTION
FUNCTION0;FUNCTIONz;FUNCTIONZ;FUNCTION_;FUNCTION;cfunction 
cfunction;cfunction[cfunction|cfunction	cfunction
cfunction0;cfunctionz;cfunctionZ;cfunction_;cfunction;
CFUNCTION CFUNCTION;CFUNCTION[CFUNCTION|CFUNCTION	CFUNCTION
CFUNCTION0;CFUNCTIONz;CFUNCTIONZ;CFUNCTION_;
CFUNCTION;fn fn;fn[fn|fn	fn
fn0;fnz;fnZ;fn_;fn;FN FN;FN[FN|FN	FN
FN0;FNz;FNZ;FN_;FN;global global;global[
global|global	global
global0;globalz;globalZ;global_;global;GLOBAL GLOBAL;GLOBAL[GLOBAL|GLOBAL	GLOBAL

GLOBAL0;GLOBALz;GLOBALZ;GLOBAL_;GLOBAL;goto goto;goto[goto|goto	goto
goto0;gotoz;gotoZ;goto_;goto;GOTO GOTO;
GOTO[GOTO|GOTO	GOTO
GOTO0;GOTOz;GOTOZ;GOTO_;GOTO;if if;if[if|if	if
if0;ifz;ifZ;if_;if;IF IF;IF[IF|IF	IF
IF0;
IFz;IFZ;IF_;IF;isset isset;isset[isset|isset	isset
isset0;issetz;issetZ;isset_;isset;ISSET ISSET;ISSET[
ISSET|ISSET	ISSET
ISSET0;ISSETz;ISSETZ;ISSET_;ISSET;implements implements;implements[implements|implements	
implements
implements0;implementsz;implementsZ;implements_;implements;IMPLEMENTS IMPLEMENTS;IMPLEMENTS[
IMPLEMENTS|IMPLEMENTS	IMPLEMENTS
IMPLEMENTS0;IMPLEMENTSz;IMPLEMENTSZ;IMPLEMENTS_;IMPLEMENTS;instanceof 
instanceof;instanceof[instanceof|instanceof	instanceof
instanceof0;instanceofz;instanceofZ;instanceof_;
instanceof;INSTANCEOF INSTANCEOF;INSTANCEOF[INSTANCEOF|INSTANCEOF	INSTANCEOF
INSTANCEOF0;INSTANCEOFz;
INSTANCEOFZ;INSTANCEOF_;INSTANCEOF;insteadof insteadof;insteadof[insteadof|insteadof	insteadof
insteadof0;
insteadofz;insteadofZ;insteadof_;insteadof;INSTEADOF INSTEADOF;INSTEADOF[
