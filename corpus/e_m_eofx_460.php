<?php __halt_compiler()

 A
