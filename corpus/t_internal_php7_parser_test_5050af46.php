<?
		try {} catch (Exception $e) {}
	