<?php
$x = [];
$x = [1];
$x = [1,];
$x = [&$a];
$x = ['k' => &$a];
$x = [...$a];
$x = [...$a, ...$b, 1, 'k' => 2, &$c, 'j' => &$d, ...f()];
$x = [...[1, 2], ...array(3)];
$x = array();
$x = array(&$a, 'k' => &$b->c, ...$d);
$x = array(1 => array(2 => array(3 => [4])));
[$a, $b] = $x;
[, $a, , $b] = $x;
[$a, [$b, [$c]]] = $x;
['k' => $a, 'j' => [$b, 'i' => $c]] = $x;
[&$a, 'k' => &$b] = $x;
[$a->b, $c[0], D::$e, $$f, ${'g'}] = $x;
list($a, $b) = $x;
list(, $a, , $b, ) = $x;
list('k' => $a, 'j' => list($b)) = $x;
list(&$a, 'k' => &$b) = $x;
list($a, [$b]) = $x;
list() = $x;
foreach ($x as [$a, $b]) { }
foreach ($x as ['k' => $a]) { }
foreach ($x as list($a, list($b))) { }
foreach ($x as $k => [$a, [$b]]) { }
foreach ($x as $k => list('a' => $a)) { }
foreach ($x as &$v) { }
foreach ($x as $k => &$v) { }
foreach (f() as $a->b => $c[0]) { }
