<?php <<<A
{{$