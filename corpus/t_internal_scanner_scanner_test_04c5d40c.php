#!/usr/bin/env php
<?php
0.1
