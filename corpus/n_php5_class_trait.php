<?php
namespace P5;
use A\B, C\D as E;
use function A\f;
use const A\K;
abstract class C extends \B implements I, namespace\J {
    use T1, T2 { T1::a insteadof T2; T2::a as b; c as protected; d as private e; }
    const X = 1, Y = self::X;
    public static $s = array();
    protected $p, $q = null;
    private final function fin() { }
    abstract protected function ab(array $a, callable $c = null, \B &$r, self ...$v);
    final public static function &ref() { static $x; return $x; }
}
interface I extends \Countable, J { const Z = 2; function m(); }
trait T1 { abstract function a(); public static function st() { yield 1; yield $k => $v; $x = (yield); } }
final class F { }
function g(array $a = array(), $b = null, &$c = 1, ...$rest) { }
