<?php
$a->b;
$a -> b;
$a->	b;
$a->
    b;
$a->
 b;
$a->list;
$a->class->function->new->array;
$a->ARRAY->If->eLsE;
$a->_b1€;
$a->b->c;
$a->b ->c;
$a->$b;
$a->$b->c;
$a->{'b'};
$a->{$b}->c;
$a-> {'b'};
$a->b();
$a->b[0];
$a->b::C;
$a->b.$c;
$a->b?$c:1;
