<?
		if ($a) :
		elseif ($b):
		endif;
	