<?php
	function & foo ( ) {
		;
	}