<?php
INSTEADOF|INSTEADOF	INSTEADOF
INSTEADOF0;INSTEADOFz;INSTEADOFZ;INSTEADOF_;INSTEADOF;interface interface;
interface[interface|interface	interface
interface0;interfacez;interfaceZ;interface_;interface;INTERFACE 
INTERFACE;INTERFACE[INTERFACE|INTERFACE	INTERFACE
INTERFACE0;INTERFACEz;INTERFACEZ;INTERFACE_;INTERFACE;list 
list;list[list|list	list
list0;listz;listZ;list_;list;LIST LIST;LIST[LIST|LIST	LIST
LIST0;LISTz;LISTZ;LIST_;
LIST;namespace namespace;namespace[namespace|namespace	namespace
namespace0;namespacez;namespaceZ;namespace_;
namespace;NAMESPACE NAMESPACE;NAMESPACE[NAMESPACE|NAMESPACE	NAMESPACE
NAMESPACE0;NAMESPACEz;NAMESPACEZ;
NAMESPACE_;NAMESPACE;private private;private[private|private	private
private0;privatez;privateZ;private_;
private;PRIVATE PRIVATE;PRIVATE[PRIVATE|PRIVATE	PRIVATE
PRIVATE0;PRIVATEz;PRIVATEZ;PRIVATE_;PRIVATE;public 
public;public[public|public	public
public0;publicz;publicZ;public_;public;PUBLIC PUBLIC;PUBLIC[PUBLIC|PUBLIC	
PUBLIC
PUBLIC0;PUBLICz;PUBLICZ;PUBLIC_;PUBLIC;print print;print[print|print	print
print0;printz;printZ;
print_;print;PRINT PRINT;PRINT[PRINT|PRINT	PRINT
PRINT0;PRINTz;PRINTZ;PRINT_;PRINT;protected protected;
protected[protected|protected	protected
protected0;protectedz;protectedZ;protected_;protected;PROTECTED 
PROTECTED;PROTECTED[PROTECTED|PROTECTED	PROTECTED
PROTECTED0;PROTECTEDz;PROTECTEDZ;PROTECTED_;PROTECTED;
return return;return[return|return	return
return0;returnz;returnZ;return_;return;RETURN RETURN;RETURN[RETURN|
RETURN	RETURN
RETURN0;RETURNz;RETURNZ;RETURN_;RETURN;static static;static[static|static	static
static0;
staticz;staticZ;static_;static;STATIC STATIC;STATIC[STATIC|STATIC	STATIC
STATIC0;STATICz;STATICZ;STATIC_;
STATIC;switch switch;switch[switch|switch	switch
switch0;switchz;switchZ;switch_;switch;SWITCH SWITCH;
SWITCH[SWITCH|SWITCH	SWITCH
SWITCH0;SWITCHz;SWITCHZ;SWITCH_;SWITCH;throw throw;throw[throw|throw	throw

throw0;throwz;throwZ;throw_;throw;THROW THROW;THROW[THROW|THROW	THROW
THROW0;THROWz;THROWZ;THROW_;THROW;
trait trait;trait[trait|trait	trait
trait0;traitz;traitZ;trait_;trait;TRAIT TRAIT;TRAIT[TRAIT|TRAIT	TRAIT

TRAIT0;TRAITz;TRAITZ;TRAIT_;TRAIT;try try;try[try|try	try
try0;tryz;tryZ;try_;try;TRY TRY;TRY[TRY|TRY	TRY

TRY0;TRYz;TRYZ;TRY_;TRY;unset unset;unset[unset|unset	unset
unset0;unsetz;unsetZ;unset_;unset;UNSET UNSET;
UNSET[UNSET|UNSET	UNSET
UNSET0;UNSETz;UNSETZ;UNSET_;UNSET;use use;use[use|use	use
use0;usez;useZ;use_;use;
USE USE;USE[USE|USE	USE
USE0;USEz;USEZ;USE_;USE;var var;var[var|var	var
var0;varz;varZ;var_;var;VAR VAR;VAR[
VAR|VAR	VAR
VAR0;VARz;VARZ;VAR_;VAR;while while;while[while|while	while
while0;whilez;whileZ;while_;while;
WHILE WHILE;WHILE[WHILE|WHILE	WHILE
WHILE0;WHILEz;WHILEZ;WHILE_;WHILE;yield yield;yield[yield|yield	yield

yield0;yieldz;yieldZ;yield_;yield;YIELD YIELD;YIELD[YIELD|YIELD	YIELD
YIELD0;YIELDz;YIELDZ;YIELD_;YIELD;
include include;include[include|include	include
include0;includez;includeZ;include_;include;INCLUDE INCLUDE;
INCLUDE[INCLUDE|INCLUDE	INCLUDE
INCLUDE0;INCLUDEz;INCLUDEZ;INCLUDE_;INCLUDE;include_once include_once;
include_once[include_once|include_once	include_once
include_once0;include_oncez;include_onceZ;include_once_;
include_once;INCLUDE_ONCE INCLUDE_ONCE;INCLUDE_ONCE[INCLUDE_ONCE|INCLUDE_ONCE	INCLUDE_ONCE
INCLUDE_ONCE0;
INCLUDE_ONCEz;INCLUDE_ONCEZ;INCLUDE_ONCE_;
