<?
		function foo(?bar $bar=null, baz &...$baz) {}
		class foo {public function foo(?bar $bar=null, baz &...$baz) {}}
		function(?bar $bar=null, baz &...$baz) {};
		static function(?bar $bar=null, baz &...$baz) {};
	