<?
		foo($a, ...$b);
		$foo($a, ...$b);
		$foo->bar($a, ...$b);
		foo::bar($a, ...$b);
		$foo::bar($a, ...$b);
		new foo($a, ...$b);
		/** anonymous class */
		new class ($a, ...$b) {};