<?php
function f0( { }
$a1 = ;
$a2 = ;
function f3( { }
$a4 = ;
$a5 = ;
function f6( { }
$a7 = ;
$a8 = ;
function f9( { }
$a10 = ;
$a11 = ;
function f12( { }
$a13 = ;
$a14 = ;
function f15( { }
$a16 = ;
$a17 = ;
function f18( { }
$a19 = ;
$a20 = ;
function f21( { }
$a22 = ;
$a23 = ;
function f24( { }
$a25 = ;
$a26 = ;
function f27( { }
$a28 = ;
$a29 = ;
function f30( { }
$a31 = ;
$a32 = ;
function f33( { }
$a34 = ;
$a35 = ;
function f36( { }
$a37 = ;
$a38 = ;
function f39( { }
$a40 = ;
$a41 = ;
function f42( { }
$a43 = ;
$a44 = ;
function f45( { }
$a46 = ;
$a47 = ;
function f48( { }
$a49 = ;
$a50 = ;
function f51( { }
$a52 = ;
$a53 = ;
function f54( { }
$a55 = ;
$a56 = ;
function f57( { }
$a58 = ;
$a59 = ;
function f60( { }
$a61 = ;
$a62 = ;
function f63( { }
$a64 = ;
$a65 = ;
function f66( { }
$a67 = ;
$a68 = ;
function f69( { }
$a70 = ;
$a71 = ;
function f72( { }
$a73 = ;
$a74 = ;
function f75( { }
$a76 = ;
$a77 = ;
function f78( { }
$a79 = ;
$a80 = ;
function f81( { }
$a82 = ;
$a83 = ;
function f84( { }
$a85 = ;
$a86 = ;
function f87( { }
$a88 = ;
$a89 = ;
function f90( { }
$a91 = ;
$a92 = ;
function f93( { }
$a94 = ;
$a95 = ;
function f96( { }
$a97 = ;
$a98 = ;
function f99( { }
$a100 = ;
$a101 = ;
function f102( { }
$a103 = ;
$a104 = ;
function f105( { }
$a106 = ;
$a107 = ;
function f108( { }
$a109 = ;
$a110 = ;
function f111( { }
$a112 = ;
$a113 = ;
function f114( { }
$a115 = ;
$a116 = ;
function f117( { }
$a118 = ;
$a119 = ;
function f120( { }
$a121 = ;
$a122 = ;
function f123( { }
$a124 = ;
$a125 = ;
function f126( { }
$a127 = ;
$a128 = ;
function f129( { }
$a130 = ;
$a131 = ;
function f132( { }
$a133 = ;
$a134 = ;
function f135( { }
$a136 = ;
$a137 = ;
function f138( { }
$a139 = ;
$a140 = ;
function f141( { }
$a142 = ;
$a143 = ;
function f144( { }
$a145 = ;
$a146 = ;
function f147( { }
$a148 = ;
$a149 = ;
function f150( { }
$a151 = ;
$a152 = ;
function f153( { }
$a154 = ;
$a155 = ;
function f156( { }
$a157 = ;
$a158 = ;
function f159( { }
$a160 = ;
$a161 = ;
function f162( { }
$a163 = ;
$a164 = ;
function f165( { }
$a166 = ;
$a167 = ;
function f168( { }
$a169 = ;
$a170 = ;
function f171( { }
$a172 = ;
$a173 = ;
function f174( { }
$a175 = ;
$a176 = ;
function f177( { }
$a178 = ;
$a179 = ;
function f180( { }
$a181 = ;
$a182 = ;
function f183( { }
$a184 = ;
$a185 = ;
function f186( { }
$a187 = ;
$a188 = ;
function f189( { }
$a190 = ;
$a191 = ;
function f192( { }
$a193 = ;
$a194 = ;
function f195( { }
$a196 = ;
$a197 = ;
function f198( { }
$a199 = ;
$a200 = ;
function f201( { }
$a202 = ;
$a203 = ;
function f204( { }
$a205 = ;
$a206 = ;
function f207( { }
$a208 = ;
$a209 = ;
function f210( { }
$a211 = ;
$a212 = ;
function f213( { }
$a214 = ;
$a215 = ;
function f216( { }
$a217 = ;
$a218 = ;
function f219( { }
$a220 = ;
$a221 = ;
function f222( { }
$a223 = ;
$a224 = ;
function f225( { }
$a226 = ;
$a227 = ;
function f228( { }
$a229 = ;
$a230 = ;
function f231( { }
$a232 = ;
$a233 = ;
function f234( { }
$a235 = ;
$a236 = ;
function f237( { }
$a238 = ;
$a239 = ;
function f240( { }
$a241 = ;
$a242 = ;
function f243( { }
$a244 = ;
$a245 = ;
function f246( { }
$a247 = ;
$a248 = ;
function f249( { }
$a250 = ;
$a251 = ;
function f252( { }
$a253 = ;
$a254 = ;
function f255( { }
$a256 = ;
$a257 = ;
function f258( { }
$a259 = ;
$a260 = ;
function f261( { }
$a262 = ;
$a263 = ;
function f264( { }
$a265 = ;
$a266 = ;
function f267( { }
$a268 = ;
$a269 = ;
function f270( { }
$a271 = ;
$a272 = ;
function f273( { }
$a274 = ;
$a275 = ;
function f276( { }
$a277 = ;
$a278 = ;
function f279( { }
$a280 = ;
$a281 = ;
function f282( { }
$a283 = ;
$a284 = ;
function f285( { }
$a286 = ;
$a287 = ;
function f288( { }
$a289 = ;
$a290 = ;
function f291( { }
$a292 = ;
$a293 = ;
function f294( { }
$a295 = ;
$a296 = ;
function f297( { }
$a298 = ;
$a299 = ;
function f300( { }
$a301 = ;
$a302 = ;
function f303( { }
$a304 = ;
$a305 = ;
function f306( { }
$a307 = ;
$a308 = ;
function f309( { }
$a310 = ;
$a311 = ;
function f312( { }
$a313 = ;
$a314 = ;
function f315( { }
$a316 = ;
$a317 = ;
function f318( { }
$a319 = ;
$a320 = ;
function f321( { }
$a322 = ;
$a323 = ;
function f324( { }
$a325 = ;
$a326 = ;
function f327( { }
$a328 = ;
$a329 = ;
function f330( { }
$a331 = ;
$a332 = ;
function f333( { }
$a334 = ;
$a335 = ;
function f336( { }
$a337 = ;
$a338 = ;
function f339( { }
$a340 = ;
$a341 = ;
function f342( { }
$a343 = ;
$a344 = ;
function f345( { }
$a346 = ;
$a347 = ;
function f348( { }
$a349 = ;
$a350 = ;
function f351( { }
$a352 = ;
$a353 = ;
function f354( { }
$a355 = ;
$a356 = ;
function f357( { }
$a358 = ;
$a359 = ;
function f360( { }
$a361 = ;
$a362 = ;
function f363( { }
$a364 = ;
$a365 = ;
function f366( { }
$a367 = ;
$a368 = ;
function f369( { }
$a370 = ;
$a371 = ;
function f372( { }
$a373 = ;
$a374 = ;
function f375( { }
$a376 = ;
$a377 = ;
function f378( { }
$a379 = ;
$a380 = ;
function f381( { }
$a382 = ;
$a383 = ;
function f384( { }
$a385 = ;
$a386 = ;
function f387( { }
$a388 = ;
$a389 = ;
function f390( { }
$a391 = ;
$a392 = ;
function f393( { }
$a394 = ;
$a395 = ;
function f396( { }
$a397 = ;
$a398 = ;
function f399( { }
$a400 = ;
$a401 = ;
function f402( { }
$a403 = ;
$a404 = ;
function f405( { }
$a406 = ;
$a407 = ;
function f408( { }
$a409 = ;
$a410 = ;
function f411( { }
$a412 = ;
$a413 = ;
function f414( { }
$a415 = ;
$a416 = ;
function f417( { }
$a418 = ;
$a419 = ;
function f420( { }
$a421 = ;
$a422 = ;
function f423( { }
$a424 = ;
$a425 = ;
function f426( { }
$a427 = ;
$a428 = ;
function f429( { }
$a430 = ;
$a431 = ;
function f432( { }
$a433 = ;
$a434 = ;
function f435( { }
$a436 = ;
$a437 = ;
function f438( { }
$a439 = ;
$a440 = ;
function f441( { }
$a442 = ;
$a443 = ;
function f444( { }
$a445 = ;
$a446 = ;
function f447( { }
$a448 = ;
$a449 = ;
function f450( { }
$a451 = ;
$a452 = ;
function f453( { }
$a454 = ;
$a455 = ;
function f456( { }
$a457 = ;
$a458 = ;
function f459( { }
$a460 = ;
$a461 = ;
function f462( { }
$a463 = ;
$a464 = ;
function f465( { }
$a466 = ;
$a467 = ;
function f468( { }
$a469 = ;
$a470 = ;
function f471( { }
$a472 = ;
$a473 = ;
function f474( { }
$a475 = ;
$a476 = ;
function f477( { }
$a478 = ;
$a479 = ;
function f480( { }
$a481 = ;
$a482 = ;
function f483( { }
$a484 = ;
$a485 = ;
function f486( { }
$a487 = ;
$a488 = ;
function f489( { }
$a490 = ;
$a491 = ;
function f492( { }
$a493 = ;
$a494 = ;
function f495( { }
$a496 = ;
$a497 = ;
function f498( { }
$a499 = ;
$a500 = ;
function f501( { }
$a502 = ;
$a503 = ;
function f504( { }
$a505 = ;
$a506 = ;
function f507( { }
$a508 = ;
$a509 = ;
function f510( { }
$a511 = ;
$a512 = ;
function f513( { }
$a514 = ;
$a515 = ;
function f516( { }
$a517 = ;
$a518 = ;
function f519( { }
$a520 = ;
$a521 = ;
function f522( { }
$a523 = ;
$a524 = ;
function f525( { }
$a526 = ;
$a527 = ;
function f528( { }
$a529 = ;
$a530 = ;
function f531( { }
$a532 = ;
$a533 = ;
function f534( { }
$a535 = ;
$a536 = ;
function f537( { }
$a538 = ;
$a539 = ;
function f540( { }
$a541 = ;
$a542 = ;
function f543( { }
$a544 = ;
$a545 = ;
function f546( { }
$a547 = ;
$a548 = ;
function f549( { }
$a550 = ;
$a551 = ;
function f552( { }
$a553 = ;
$a554 = ;
function f555( { }
$a556 = ;
$a557 = ;
function f558( { }
$a559 = ;
$a560 = ;
function f561( { }
$a562 = ;
$a563 = ;
function f564( { }
$a565 = ;
$a566 = ;
function f567( { }
$a568 = ;
$a569 = ;
function f570( { }
$a571 = ;
$a572 = ;
function f573( { }
$a574 = ;
$a575 = ;
function f576( { }
$a577 = ;
$a578 = ;
function f579( { }
$a580 = ;
$a581 = ;
function f582( { }
$a583 = ;
$a584 = ;
function f585( { }
$a586 = ;
$a587 = ;
function f588( { }
$a589 = ;
$a590 = ;
function f591( { }
$a592 = ;
$a593 = ;
function f594( { }
$a595 = ;
$a596 = ;
function f597( { }
$a598 = ;
$a599 = ;
function f600( { }
$a601 = ;
$a602 = ;
function f603( { }
$a604 = ;
$a605 = ;
function f606( { }
$a607 = ;
$a608 = ;
function f609( { }
$a610 = ;
$a611 = ;
function f612( { }
$a613 = ;
$a614 = ;
function f615( { }
$a616 = ;
$a617 = ;
function f618( { }
$a619 = ;
$a620 = ;
function f621( { }
$a622 = ;
$a623 = ;
function f624( { }
$a625 = ;
$a626 = ;
function f627( { }
$a628 = ;
$a629 = ;
function f630( { }
$a631 = ;
$a632 = ;
function f633( { }
$a634 = ;
$a635 = ;
function f636( { }
$a637 = ;
$a638 = ;
function f639( { }
$a640 = ;
$a641 = ;
function f642( { }
$a643 = ;
$a644 = ;
function f645( { }
$a646 = ;
$a647 = ;
function f648( { }
$a649 = ;
$a650 = ;
function f651( { }
$a652 = ;
$a653 = ;
function f654( { }
$a655 = ;
$a656 = ;
function f657( { }
$a658 = ;
$a659 = ;
function f660( { }
$a661 = ;
$a662 = ;
function f663( { }
$a664 = ;
$a665 = ;
function f666( { }
$a667 = ;
$a668 = ;
function f669( { }
$a670 = ;
$a671 = ;
function f672( { }
$a673 = ;
$a674 = ;
function f675( { }
$a676 = ;
$a677 = ;
function f678( { }
$a679 = ;
$a680 = ;
function f681( { }
$a682 = ;
$a683 = ;
function f684( { }
$a685 = ;
$a686 = ;
function f687( { }
$a688 = ;
$a689 = ;
function f690( { }
$a691 = ;
$a692 = ;
function f693( { }
$a694 = ;
$a695 = ;
function f696( { }
$a697 = ;
$a698 = ;
function f699( { }
$a700 = ;
$a701 = ;
function f702( { }
$a703 = ;
$a704 = ;
function f705( { }
$a706 = ;
$a707 = ;
function f708( { }
$a709 = ;
$a710 = ;
function f711( { }
$a712 = ;
$a713 = ;
function f714( { }
$a715 = ;
$a716 = ;
function f717( { }
$a718 = ;
$a719 = ;
function f720( { }
$a721 = ;
$a722 = ;
function f723( { }
$a724 = ;
$a725 = ;
function f726( { }
$a727 = ;
$a728 = ;
function f729( { }
$a730 = ;
$a731 = ;
function f732( { }
$a733 = ;
$a734 = ;
function f735( { }
$a736 = ;
$a737 = ;
function f738( { }
$a739 = ;
$a740 = ;
function f741( { }
$a742 = ;
$a743 = ;
function f744( { }
$a745 = ;
$a746 = ;
function f747( { }
$a748 = ;
$a749 = ;
function f750( { }
$a751 = ;
$a752 = ;
function f753( { }
$a754 = ;
$a755 = ;
function f756( { }
$a757 = ;
$a758 = ;
function f759( { }
$a760 = ;
$a761 = ;
function f762( { }
$a763 = ;
$a764 = ;
function f765( { }
$a766 = ;
$a767 = ;
function f768( { }
$a769 = ;
$a770 = ;
function f771( { }
$a772 = ;
$a773 = ;
function f774( { }
$a775 = ;
$a776 = ;
function f777( { }
$a778 = ;
$a779 = ;
function f780( { }
$a781 = ;
$a782 = ;
function f783( { }
$a784 = ;
$a785 = ;
function f786( { }
$a787 = ;
$a788 = ;
function f789( { }
$a790 = ;
$a791 = ;
function f792( { }
$a793 = ;
$a794 = ;
function f795( { }
$a796 = ;
$a797 = ;
function f798( { }
$a799 = ;
$a800 = ;
function f801( { }
$a802 = ;
$a803 = ;
function f804( { }
$a805 = ;
$a806 = ;
function f807( { }
$a808 = ;
$a809 = ;
function f810( { }
$a811 = ;
$a812 = ;
function f813( { }
$a814 = ;
$a815 = ;
function f816( { }
$a817 = ;
$a818 = ;
function f819( { }
$a820 = ;
$a821 = ;
function f822( { }
$a823 = ;
$a824 = ;
function f825( { }
$a826 = ;
$a827 = ;
function f828( { }
$a829 = ;
$a830 = ;
function f831( { }
$a832 = ;
$a833 = ;
function f834( { }
$a835 = ;
$a836 = ;
function f837( { }
$a838 = ;
$a839 = ;
function f840( { }
$a841 = ;
$a842 = ;
function f843( { }
$a844 = ;
$a845 = ;
function f846( { }
$a847 = ;
$a848 = ;
function f849( { }
$a850 = ;
$a851 = ;
function f852( { }
$a853 = ;
$a854 = ;
function f855( { }
$a856 = ;
$a857 = ;
function f858( { }
$a859 = ;
$a860 = ;
function f861( { }
$a862 = ;
$a863 = ;
function f864( { }
$a865 = ;
$a866 = ;
function f867( { }
$a868 = ;
$a869 = ;
function f870( { }
$a871 = ;
$a872 = ;
function f873( { }
$a874 = ;
$a875 = ;
function f876( { }
$a877 = ;
$a878 = ;
function f879( { }
$a880 = ;
$a881 = ;
function f882( { }
$a883 = ;
$a884 = ;
function f885( { }
$a886 = ;
$a887 = ;
function f888( { }
$a889 = ;
$a890 = ;
function f891( { }
$a892 = ;
$a893 = ;
function f894( { }
$a895 = ;
$a896 = ;
function f897( { }
$a898 = ;
$a899 = ;
function f900( { }
$a901 = ;
$a902 = ;
function f903( { }
$a904 = ;
$a905 = ;
function f906( { }
$a907 = ;
$a908 = ;
function f909( { }
$a910 = ;
$a911 = ;
function f912( { }
$a913 = ;
$a914 = ;
function f915( { }
$a916 = ;
$a917 = ;
function f918( { }
$a919 = ;
$a920 = ;
function f921( { }
$a922 = ;
$a923 = ;
function f924( { }
$a925 = ;
$a926 = ;
function f927( { }
$a928 = ;
$a929 = ;
function f930( { }
$a931 = ;
$a932 = ;
function f933( { }
$a934 = ;
$a935 = ;
function f936( { }
$a937 = ;
$a938 = ;
function f939( { }
$a940 = ;
$a941 = ;
function f942( { }
$a943 = ;
$a944 = ;
function f945( { }
$a946 = ;
$a947 = ;
function f948( { }
$a949 = ;
$a950 = ;
function f951( { }
$a952 = ;
$a953 = ;
function f954( { }
$a955 = ;
$a956 = ;
function f957( { }
$a958 = ;
$a959 = ;
function f960( { }
$a961 = ;
$a962 = ;
function f963( { }
$a964 = ;
$a965 = ;
function f966( { }
$a967 = ;
$a968 = ;
function f969( { }
$a970 = ;
$a971 = ;
function f972( { }
$a973 = ;
$a974 = ;
function f975( { }
$a976 = ;
$a977 = ;
function f978( { }
$a979 = ;
$a980 = ;
function f981( { }
$a982 = ;
$a983 = ;
function f984( { }
$a985 = ;
$a986 = ;
function f987( { }
$a988 = ;
$a989 = ;
function f990( { }
$a991 = ;
$a992 = ;
function f993( { }
$a994 = ;
$a995 = ;
function f996( { }
$a997 = ;
$a998 = ;
function f999( { }
$a1000 = ;
$a1001 = ;
function f1002( { }
$a1003 = ;
$a1004 = ;
function f1005( { }
$a1006 = ;
$a1007 = ;
function f1008( { }
$a1009 = ;
$a1010 = ;
function f1011( { }
$a1012 = ;
$a1013 = ;
function f1014( { }
$a1015 = ;
$a1016 = ;
function f1017( { }
$a1018 = ;
$a1019 = ;
function f1020( { }
$a1021 = ;
$a1022 = ;
function f1023( { }
$a1024 = ;
$a1025 = ;
function f1026( { }
$a1027 = ;
$a1028 = ;
function f1029( { }
$a1030 = ;
$a1031 = ;
function f1032( { }
$a1033 = ;
$a1034 = ;
function f1035( { }
$a1036 = ;
$a1037 = ;
function f1038( { }
$a1039 = ;
$a1040 = ;
function f1041( { }
$a1042 = ;
$a1043 = ;
function f1044( { }
$a1045 = ;
$a1046 = ;
function f1047( { }
$a1048 = ;
$a1049 = ;
function f1050( { }
$a1051 = ;
$a1052 = ;
function f1053( { }
$a1054 = ;
$a1055 = ;
function f1056( { }
$a1057 = ;
$a1058 = ;
function f1059( { }
$a1060 = ;
$a1061 = ;
function f1062( { }
$a1063 = ;
$a1064 = ;
function f1065( { }
$a1066 = ;
$a1067 = ;
function f1068( { }
$a1069 = ;
$a1070 = ;
function f1071( { }
$a1072 = ;
$a1073 = ;
function f1074( { }
$a1075 = ;
$a1076 = ;
function f1077( { }
$a1078 = ;
$a1079 = ;
function f1080( { }
$a1081 = ;
$a1082 = ;
function f1083( { }
$a1084 = ;
$a1085 = ;
function f1086( { }
$a1087 = ;
$a1088 = ;
function f1089( { }
$a1090 = ;
$a1091 = ;
function f1092( { }
$a1093 = ;
$a1094 = ;
function f1095( { }
$a1096 = ;
$a1097 = ;
function f1098( { }
$a1099 = ;
