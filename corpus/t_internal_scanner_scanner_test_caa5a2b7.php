<?php

	<<<"CAT"
\\{$a['b']}
CAT;
	