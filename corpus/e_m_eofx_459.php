<?php __halt_compiler()
a1