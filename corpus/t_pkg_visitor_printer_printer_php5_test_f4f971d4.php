<?php
	class Foo {
		var $a = '' , $b = null ;
		private $c ;
		public static $d ;
		
	}