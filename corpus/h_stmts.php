<?php
function f(array $a, callable $c = null, $d = CONST_X): void {
    global $g1, $g2;
    static $s1 = 1, $s2;
    if ($a) { return; } elseif ($c) { } else if ($d) { } else { }
    while (true) { break 2; continue 1; }
    do { $i++; } while ($i < 10);
    for ($i = 0, $j = 1; $i < 10; $i++, $j--) { }
    foreach ($a as list($x, $y)) { }
    foreach ($a as $k => [$x, $y]) { }
    switch ($x) { case 1: case 2: echo 1; break; default: echo 2; }
    try { throw new \Exception('x'); } catch (A | B $e) { } catch (\Throwable $t) { } finally { }
    goto end; end:
    unset($a, $b);
    echo 1, 2, 3;
    declare(ticks=1) { }
    declare(strict_types=1);
    { nested(); }
    ;
    const X = 1;
}
?>
<html><?= $x ?></html>
<?php echo 1 ?>
