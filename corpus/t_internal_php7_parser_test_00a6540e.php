<?
		try {} catch (Exception $e) {} finally {}
	