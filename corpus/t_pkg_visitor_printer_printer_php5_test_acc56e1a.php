<?php
	@ foo ( ) ;
	