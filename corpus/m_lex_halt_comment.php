<?php
__halt_compiler/**/();
echo 1;