<?php
$a = array(1, 2);
list($a, $b) = each($x);
function f(&$a, array $b = array()) { return $a{0}; }
class A { var $x; function A() { } static function s() { return new static; } }
$x = $a{1};
$f = function() use ($x) { return $x; };
global $$a, ${'b'};
$$a = 1; $$$b = 2; ${$c}[1] = 3;
echo "$a[0] {$b['k']} ${c}";
static $z = array('a' => array(1));
new A; new A(); $a->$b(); $a->{$b}(); $a::$b; A::{$c}();
if ($a): elseif ($b): else: endif;
