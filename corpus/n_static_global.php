<?php
function f() {
    global $a;
    global $a, $b, $$c, ${'d'}, ${$e . 'f'};
    static $s;
    static $s = 1;
    static $s, $t = [1, 2], $u = A::B, $v = -1, $w = 'x' . 'y';
    static fn() => 1;
    static function () { };
    static::m();
    static::$p;
    static::C;
    new static;
    return static::class;
}
global $top;
static $topstatic = 1;
