#!/bin/bash
# MANIFEST.setup_cmd: build the framework offline from files on disk and warm
# the Go build cache (race-enabled standard library + instrumented repository).
set -u
cd "$(dirname "$0")"
export GOFLAGS=-mod=mod GOPROXY=off GOSUMDB=off GOTOOLCHAIN=local
export VERIF_DIR="$PWD"
mkdir -p bin evidence replays
go build -o bin/verif-instrument ./cmd/verif-instrument || exit 1
go build -o bin/verif-check ./cmd/verif-check || exit 1
# warm-up + determinism self-test on a small sample (the full one is
# `./check.sh selftest`); its outcome is printed, build trouble fails setup
bin/verif-check selftest --seeds 6
st=$?
if [ $st -ne 0 ]; then
  echo "setup.sh: selftest exited $st (see above)" >&2
  exit 1
fi
# self-check of the instrumenter: the repository's own tests on the instrumented copy
bin/verif-check instrumented-tests || { echo "setup.sh: instrumented-tests failed" >&2; exit 1; }
echo "setup ok"
