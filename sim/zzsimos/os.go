// Package zzsimos holds what the instrumented copy of cmd/php-parser uses in
// place of process-global facilities: os.Exit, os.Stdout, os.Stderr, os.Args,
// fmt.Print*, log.Fatal*/Print*, runtime.GOMAXPROCS/NumCPU. Streams are
// captured in memory; Exit halts the simulated program instead of the process.
// The file system is NOT simulated: the program works on real files in a
// per-run scratch directory.
package zzsimos

import (
	"fmt"
	"os"
	"strings"
	"sync"
	"syscall"

	"github.com/z7zmey/php-parser/pkg/zzsim"
)

// Stream is an in-memory stand-in for an *os.File used as an output stream.
// A real mutex orders writers, as the kernel does for a real descriptor.
type Stream struct {
	mu  sync.Mutex
	buf []byte
}

func (s *Stream) Write(p []byte) (int, error) {
	if zzsim.Halting() {
		return len(p), nil // the program has exited: nothing it still does is seen
	}
	s.mu.Lock()
	s.buf = append(s.buf, p...)
	s.mu.Unlock()
	return len(p), nil
}
func (s *Stream) WriteString(p string) (int, error) {
	if zzsim.Halting() {
		return len(p), nil
	}
	s.mu.Lock()
	s.buf = append(s.buf, p...)
	s.mu.Unlock()
	return len(p), nil
}
func (s *Stream) Sync() error  { return nil }
func (s *Stream) Close() error { return nil }
func (s *Stream) Fd() uintptr  { return 1 }
func (s *Stream) Name() string { return "/dev/simulated" }
func (s *Stream) Bytes() []byte {
	s.mu.Lock()
	defer s.mu.Unlock()
	return append([]byte(nil), s.buf...)
}
func (s *Stream) reset() {
	s.mu.Lock()
	s.buf = nil
	s.mu.Unlock()
}

var (
	Stdout = &Stream{}
	Stderr = &Stream{}
	Args   = []string{"php-parser"}

	mu       sync.Mutex
	exited   bool
	exitCode int
	procs    = 1
)

// The program's own package-level state: every file of cmd/php-parser registers
// a function that re-initialises its package-level variables; ResetProgram runs
// them, so that each simulated invocation starts like a fresh process.
var programResets []func()

func RegisterReset(f func()) { programResets = append(programResets, f) }

func ResetProgram() {
	for _, f := range programResets {
		f()
	}
}

// Reset starts a new simulated invocation.
func Reset(args []string, nprocs int) {
	Stdout.reset()
	Stderr.reset()
	Args = append([]string{"php-parser"}, args...)
	mu.Lock()
	exited, exitCode = false, 0
	procs = nprocs
	if procs < 1 {
		procs = 1
	}
	mu.Unlock()
}

// Exited reports whether the program called Exit, and with which code.
func Exited() (bool, int) {
	mu.Lock()
	defer mu.Unlock()
	return exited, exitCode
}

// Exit ends the simulated program: every other task aborts at its next yield
// point, the calling task unwinds now.
func Exit(code int) {
	mu.Lock()
	if !exited {
		exited, exitCode = true, code
	}
	mu.Unlock()
	zzsim.Halt()
	panic(zzsim.HaltAbort{})
}

func GOMAXPROCS(n int) int {
	mu.Lock()
	defer mu.Unlock()
	old := procs
	if n > 0 {
		procs = n
	}
	return old
}
func NumCPU() int { return GOMAXPROCS(0) }

func Print(a ...interface{}) (int, error)   { return fmt.Fprint(Stdout, a...) }
func Println(a ...interface{}) (int, error) { return fmt.Fprintln(Stdout, a...) }
func Printf(f string, a ...interface{}) (int, error) {
	return fmt.Fprintf(Stdout, f, a...)
}

// log.* : the timestamp prefix is dropped (it is a clock reading)
func LogPrint(a ...interface{})            { fmt.Fprintln(Stderr, fmt.Sprint(a...)) }
func LogPrintln(a ...interface{})          { fmt.Fprint(Stderr, fmt.Sprintln(a...)) }
func LogPrintf(f string, a ...interface{}) { fmt.Fprintln(Stderr, fmt.Sprintf(f, a...)) }
func Fatal(a ...interface{})               { LogPrint(a...); Exit(1) }
func Fatalln(a ...interface{})             { LogPrintln(a...); Exit(1) }
func Fatalf(f string, a ...interface{})    { LogPrintf(f, a...); Exit(1) }
func Panic(a ...interface{})               { s := fmt.Sprint(a...); LogPrint(s); panic(s) }
func Panicf(f string, a ...interface{})    { s := fmt.Sprintf(f, a...); LogPrint(s); panic(s) }

// ---- file-system faults (the files themselves are real)

// FSFault makes ReadFile / WriteFile fail for paths ending in Suffix.
type FSFault struct {
	Suffix string
	Kind   string // write-err | write-torn | read-err
}

var (
	fsFaults []FSFault
	fsFired  = map[string]int64{}
)

// SetFSFaults installs the faults of the next invocation (nil: none).
func SetFSFaults(f []FSFault) {
	mu.Lock()
	fsFaults = f
	fsFired = map[string]int64{}
	mu.Unlock()
}

// FSFired reports how often each fault kind fired since SetFSFaults.
func FSFired() map[string]int64 {
	mu.Lock()
	defer mu.Unlock()
	out := map[string]int64{}
	for k, v := range fsFired {
		out[k] = v
	}
	return out
}

func fsFault(name string, kinds ...string) string {
	mu.Lock()
	defer mu.Unlock()
	for _, f := range fsFaults {
		if strings.HasSuffix(name, f.Suffix) {
			for _, k := range kinds {
				if f.Kind == k {
					fsFired[k]++
					return k
				}
			}
		}
	}
	return ""
}

// WriteFile replaces ioutil.WriteFile / os.WriteFile in cmd/php-parser.
func WriteFile(name string, data []byte, perm os.FileMode) error {
	if zzsim.Halting() {
		return nil // the program has exited
	}
	switch fsFault(name, "write-err", "write-torn") {
	case "write-err":
		return &os.PathError{Op: "open", Path: name, Err: syscall.EACCES}
	case "write-torn":
		if err := os.WriteFile(name, data[:len(data)/2], perm); err != nil {
			return err
		}
		return &os.PathError{Op: "write", Path: name, Err: syscall.ENOSPC}
	}
	return os.WriteFile(name, data, perm)
}

// ReadFile replaces ioutil.ReadFile / os.ReadFile in cmd/php-parser.
func ReadFile(name string) ([]byte, error) {
	if fsFault(name, "read-err") != "" {
		return nil, &os.PathError{Op: "open", Path: name, Err: syscall.EACCES}
	}
	return os.ReadFile(name)
}
