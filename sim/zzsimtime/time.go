// Package zzsimtime replaces the import "time" in instrumented files of the
// code under test that touch the clock: Now, Since, Until, Sleep, After,
// AfterFunc, NewTimer, NewTicker and Tick read and wait on the simulator's
// clock (zzsim/clock.go) while a simulation is running, and fall through to the
// real package otherwise (the repository's own tests on the instrumented copy).
// Everything else is the real package under the same names.
package zzsimtime

import (
	"time"

	"github.com/z7zmey/php-parser/pkg/zzsim"
)

type (
	Duration   = time.Duration
	Time       = time.Time
	Month      = time.Month
	Weekday    = time.Weekday
	Location   = time.Location
	ParseError = time.ParseError
)

const (
	Nanosecond  = time.Nanosecond
	Microsecond = time.Microsecond
	Millisecond = time.Millisecond
	Second      = time.Second
	Minute      = time.Minute
	Hour        = time.Hour

	ANSIC       = time.ANSIC
	UnixDate    = time.UnixDate
	RubyDate    = time.RubyDate
	RFC822      = time.RFC822
	RFC822Z     = time.RFC822Z
	RFC850      = time.RFC850
	RFC1123     = time.RFC1123
	RFC1123Z    = time.RFC1123Z
	RFC3339     = time.RFC3339
	RFC3339Nano = time.RFC3339Nano
	Kitchen     = time.Kitchen
	Stamp       = time.Stamp
	StampMilli  = time.StampMilli
	StampMicro  = time.StampMicro
	StampNano   = time.StampNano

	January   = time.January
	February  = time.February
	March     = time.March
	April     = time.April
	May       = time.May
	June      = time.June
	July      = time.July
	August    = time.August
	September = time.September
	October   = time.October
	November  = time.November
	December  = time.December

	Sunday    = time.Sunday
	Monday    = time.Monday
	Tuesday   = time.Tuesday
	Wednesday = time.Wednesday
	Thursday  = time.Thursday
	Friday    = time.Friday
	Saturday  = time.Saturday
)

var (
	UTC   = time.UTC
	Local = time.Local
)

func Date(year int, month Month, day, hour, min, sec, nsec int, loc *Location) Time {
	return time.Date(year, month, day, hour, min, sec, nsec, loc)
}
func Unix(sec, nsec int64) Time                     { return time.Unix(sec, nsec) }
func UnixMilli(ms int64) Time                       { return time.UnixMilli(ms) }
func UnixMicro(us int64) Time                       { return time.UnixMicro(us) }
func Parse(layout, value string) (Time, error)      { return time.Parse(layout, value) }
func ParseDuration(s string) (Duration, error)      { return time.ParseDuration(s) }
func LoadLocation(name string) (*Location, error)   { return time.LoadLocation(name) }
func FixedZone(name string, offset int) *Location   { return time.FixedZone(name, offset) }
func ParseInLocation(l, v string, loc *Location) (Time, error) {
	return time.ParseInLocation(l, v, loc)
}

// ---- the clock

func Now() Time {
	if zzsim.Active() {
		return zzsim.SimNow()
	}
	return time.Now()
}

func Since(t Time) Duration { return Now().Sub(t) }
func Until(t Time) Duration { return t.Sub(Now()) }

func Sleep(d Duration) { zzsim.Sleep(d) }

// Timer mirrors time.Timer.
type Timer struct {
	C    <-chan Time
	sim  *zzsim.SimTimer
	real *time.Timer
}

func NewTimer(d Duration) *Timer {
	if zzsim.Active() {
		s := zzsim.NewTimer(d)
		return &Timer{C: s.Chan(), sim: s}
	}
	r := time.NewTimer(d)
	return &Timer{C: r.C, real: r}
}

func AfterFunc(d Duration, f func()) *Timer {
	if zzsim.Active() {
		return &Timer{sim: zzsim.AfterFunc(d, f)}
	}
	return &Timer{real: time.AfterFunc(d, f)}
}

func After(d Duration) <-chan Time { return NewTimer(d).C }

func (t *Timer) Stop() bool {
	if t.sim != nil {
		return t.sim.Stop()
	}
	return t.real.Stop()
}

func (t *Timer) Reset(d Duration) bool {
	if t.sim != nil {
		return t.sim.Reset(d)
	}
	return t.real.Reset(d)
}

// Ticker mirrors time.Ticker.
type Ticker struct {
	C    <-chan Time
	sim  *zzsim.SimTimer
	real *time.Ticker
}

func NewTicker(d Duration) *Ticker {
	if d <= 0 {
		panic("non-positive interval for NewTicker")
	}
	if zzsim.Active() {
		s := zzsim.NewTicker(d)
		return &Ticker{C: s.Chan(), sim: s}
	}
	r := time.NewTicker(d)
	return &Ticker{C: r.C, real: r}
}

func Tick(d Duration) <-chan Time {
	if d <= 0 {
		return nil
	}
	return NewTicker(d).C
}

func (t *Ticker) Stop() {
	if t.sim != nil {
		t.sim.Stop()
		return
	}
	t.real.Stop()
}

func (t *Ticker) Reset(d Duration) {
	if t.sim != nil {
		t.sim.Reset(d)
		return
	}
	t.real.Reset(d)
}
