// Package zzsimflag replaces "flag" in the instrumented copy of
// cmd/php-parser: same package-level API, but backed by a FlagSet the harness
// re-creates for every simulated invocation of the program (the real
// flag.CommandLine would panic on the second definition of a flag and reads
// os.Args).
package zzsimflag

import (
	"flag"
	"io"
	"time"
)

type (
	Flag          = flag.Flag
	FlagSet       = flag.FlagSet
	Value         = flag.Value
	Getter        = flag.Getter
	ErrorHandling = flag.ErrorHandling
)

const (
	ContinueOnError = flag.ContinueOnError
	ExitOnError     = flag.ExitOnError
	PanicOnError    = flag.PanicOnError
)

var ErrHelp = flag.ErrHelp

// CommandLine is the current invocation's flag set; Args its arguments.
// (a set exists from the start: a program may define its flags in init(), before
// any invocation; the harness re-creates the set and re-runs those init
// functions for every invocation)
var CommandLine = flag.NewFlagSet("php-parser", flag.ContinueOnError)
var argv []string

// ParseFailed is set when Parse met an error (the real program would exit 2).
var ParseFailed func(err error)

var Usage = func() { CommandLine.Usage() }

// Reset starts a new invocation with the given arguments (without argv[0]).
func Reset(args []string, out io.Writer) {
	CommandLine = flag.NewFlagSet("php-parser", flag.ContinueOnError)
	CommandLine.SetOutput(out)
	argv = args
	Usage = func() { CommandLine.Usage() }
}

func NewFlagSet(name string, h flag.ErrorHandling) *flag.FlagSet { return flag.NewFlagSet(name, h) }

func Bool(name string, value bool, usage string) *bool { return CommandLine.Bool(name, value, usage) }
func BoolVar(p *bool, name string, value bool, usage string) {
	CommandLine.BoolVar(p, name, value, usage)
}
func Int(name string, value int, usage string) *int { return CommandLine.Int(name, value, usage) }
func IntVar(p *int, name string, value int, usage string) {
	CommandLine.IntVar(p, name, value, usage)
}
func Int64(name string, value int64, usage string) *int64 {
	return CommandLine.Int64(name, value, usage)
}
func Uint(name string, value uint, usage string) *uint { return CommandLine.Uint(name, value, usage) }
func String(name string, value string, usage string) *string {
	return CommandLine.String(name, value, usage)
}
func StringVar(p *string, name string, value string, usage string) {
	CommandLine.StringVar(p, name, value, usage)
}
func Float64(name string, value float64, usage string) *float64 {
	return CommandLine.Float64(name, value, usage)
}
func Duration(name string, value time.Duration, usage string) *time.Duration {
	return CommandLine.Duration(name, value, usage)
}
func DurationVar(p *time.Duration, name string, value time.Duration, usage string) {
	CommandLine.DurationVar(p, name, value, usage)
}
func Var(value flag.Value, name string, usage string) { CommandLine.Var(value, name, usage) }
func Func(name, usage string, fn func(string) error)  { CommandLine.Func(name, usage, fn) }

func Parse() {
	if err := CommandLine.Parse(argv); err != nil && ParseFailed != nil {
		ParseFailed(err)
	}
}
func Parsed() bool             { return CommandLine.Parsed() }
func Args() []string           { return CommandLine.Args() }
func Arg(i int) string         { return CommandLine.Arg(i) }
func NArg() int                { return CommandLine.NArg() }
func NFlag() int               { return CommandLine.NFlag() }
func PrintDefaults()           { CommandLine.PrintDefaults() }
func Lookup(name string) *Flag { return CommandLine.Lookup(name) }
func Set(name, value string) error {
	return CommandLine.Set(name, value)
}
func Visit(fn func(*Flag))    { CommandLine.Visit(fn) }
func VisitAll(fn func(*Flag)) { CommandLine.VisitAll(fn) }
