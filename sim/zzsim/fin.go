package zzsim

import (
	"reflect"
	"runtime"
	"sync"
	"time"
)

// Finalizers. runtime.SetFinalizer in instrumented code is redirected here: the
// real finalizer only QUEUES the call (it runs on the runtime's finalizer
// goroutine, which the simulator does not schedule), and the queued calls are
// executed as a simulated task spawned at the next forced-GC point, so that the
// code of a finalizer interleaves with the other tasks under the seeded
// scheduler like everything else. simnode switches automatic GC off when the
// tree uses finalizers: objects are then found dead only at forced GCs, which
// the fault schedule places.
var (
	finMu         sync.Mutex
	finQ          []func()
	FinalizersRun int64
)

func SetFinalizer(obj interface{}, fn interface{}) {
	if fn == nil || !Active() {
		// outside a simulation (the repository's own tests on the instrumented
		// copy) finalizers are the runtime's business
		runtime.SetFinalizer(obj, fn)
		return
	}
	noteFinalizer()
	fv := reflect.ValueOf(fn)
	ft := fv.Type()
	w := reflect.MakeFunc(ft, func(args []reflect.Value) []reflect.Value {
		finMu.Lock()
		finQ = append(finQ, func() { fv.Call(args) })
		finMu.Unlock()
		out := make([]reflect.Value, ft.NumOut())
		for i := range out {
			out[i] = reflect.Zero(ft.Out(i))
		}
		return out
	})
	runtime.SetFinalizer(obj, w.Interface())
}

// finUsed: some finalizer was registered in this process. Until then ForceGC
// touches no lock, so that it creates no happens-before edge between the tasks
// that happen to execute forced collections.
var finUsed bool

//go:norace
func noteFinalizer() { finUsed = true }

//go:norace
func finalizersInUse() bool { return finUsed }

//go:norace
func countFinalizers(n int) { FinalizersRun += int64(n) }

func finPending() int {
	finMu.Lock()
	n := len(finQ)
	finMu.Unlock()
	return n
}

// ForceGC is the forced-GC fault: a full collection, a bounded wait for the
// runtime's finalizer goroutine to queue what the collection found, and a new
// simulated task that runs the queued finalizers.
func ForceGC() {
	runtime.GC()
	if !Active() || !finalizersInUse() {
		return
	}
	last, quiet := finPending(), 0
	multi := runtime.GOMAXPROCS(0) > 1
	for i := 0; i < 400 && quiet < 40; i++ {
		runtime.Gosched()
		if multi {
			// (determinism self-test only) the runtime's finalizer goroutine works
			// on another P: give it real time, yielding does not wait for it
			time.Sleep(100 * time.Microsecond)
		}
		if n := finPending(); n != last {
			last, quiet = n, 0
		} else {
			quiet++
		}
	}
	finMu.Lock()
	q := finQ
	finQ = nil
	finMu.Unlock()
	if len(q) == 0 {
		return
	}
	countFinalizers(len(q))
	Spawn(func() {
		for _, f := range q {
			f()
		}
	})
}
