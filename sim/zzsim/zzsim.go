// Package zzsim is the simulator runtime that verif-check links into the
// instrumented scratch copy of the repository (as pkg/zzsim). DESIGN.md §2.2.
//
// Tasks are real goroutines; exactly one holds the run token. The hand-over is
// done in //go:norace code on plain memory so that the race detector sees NO
// happens-before edge between tasks (DESIGN.md §2.3). Task-side code here uses
// only scalars and fixed-size arrays: no append, copy, map or fmt.
package zzsim

import (
	"runtime"
	"sync"
	"sync/atomic"
	"syscall"
	"time"
	"unsafe"
)

// goroutines of the code under test started while no simulation was running
var outside atomic.Int64

// SlotsReused: task slots taken over from finished tasks (a phase that started
// more than 94 tasks in all)
var SlotsReused int64

var (
	stalls        [4][3]int64
	nStall        int
	StallsApplied int64 // decisions in which a stalled task was passed over
)

//go:norace
func stalled(i int) bool {
	for k := 0; k < nStall; k++ {
		if stalls[k][0] == int64(i) && Steps >= stalls[k][1] && Steps < stalls[k][2] {
			return true
		}
	}
	return false
}

//go:norace
func ptr(b *byte) unsafe.Pointer { return unsafe.Pointer(b) }

const (
	MaxTasks  = 96
	MaxEvents = 1 << 16
	MaxTape   = 1 << 18
	MaxSites  = 1 << 15
	MaxFaults = 1 << 12
	MaxGC     = 16
	Inf       = int64(1) << 60

	// reserved yield sites inside zzsimsync: right after a primitive was
	// released / right before one is acquired (class "sync" of the site-biased
	// scheduler: the gaps between critical sections are where check-then-act
	// sequences break)
	SiteSyncRel = MaxSites - 1
	SiteSyncAcq = MaxSites - 2
)

// scheduler modes (only used when generating; a replay follows the tape)
const (
	ModeRTC    = 0 // run to completion, random order at task end
	ModeRandom = 1 // uniform random preemption, mean distance Mean
	ModePCT    = 2 // random priorities, Depth priority change points before Horizon
	ModeSite   = 3 // preempt with probability 1/Mean at marked sites
)

// decision kinds
const (
	KPreempt = 0
	KFinish  = 1
	KBlocked = 2
	KStart   = 3
	KYield   = 4 // runtime.Gosched in the code under test
	KSelect  = 5 // choice among several ready cases of a select (to = the choice)
)

const (
	stFree = iota
	stRunnable
	stBlocked // inside Blocked(): schedulable, counts for deadlock detection
	stDone
)

// BudgetExceeded is the panic value thrown by Y when an operation exceeds its
// step budget; DeadlockAbort is thrown by Blocked once a deadlock was detected.
type BudgetExceeded struct{}
type DeadlockAbort struct{}

// HaltAbort is thrown by Y and Blocked in every task once Halt was called: the
// simulated program has exited (os.Exit, or its main function returned).
type HaltAbort struct{}

// PanicHandler, when set, receives a panic value that escaped a task body
// (other than the simulator's own sentinels) instead of it being counted as a
// harness bug: for whole-program scenarios a crash is an outcome.
var PanicHandler func(task int, r interface{})

type task struct {
	state     int32
	wake      int32
	opSteps   int64
	opLimit   int64
	blockedAt int64 // value of syncEpoch when the task last found its primitive unavailable
	wakeAt    int64 // > 0 while blocked: asleep until this simulated time (only time makes it eligible)
	held      int32 // simulated locks this task holds (see Held)
	prio      int64 // PCT
	rdv       int32 // woken for a rendezvous on an unbuffered channel (runs one statement without the token)
	selCase   int32 // ... out of Select: the case it was matched on
	rfd, wfd  int   // pipe hand-over
	fromCode  bool  // started by a go statement of the code under test
}

var (
	done sync.WaitGroup

	active   bool
	cur      = -1
	nTasks   int
	tasks    [MaxTasks]task
	mainWake int32
	usePipe  bool
	mainR    int
	mainW    int

	Steps     int64
	syncEpoch int64 // incremented whenever a simulated primitive changes state
	countdown int64
	lastDec   int64

	mode     int
	mean     uint64
	rng      uint64
	frng     uint64
	pctAt    [8]int64
	pctN     int
	pctNext  int
	pctLow   int64
	fallback bool

	replay  bool
	tapeIn  [MaxTape][2]int64
	nTapeIn int
	tapePos int
	pendP   int64

	TapeOut  [MaxTape][2]int64
	NTapeOut int

	faultReplay bool
	faultIn     [MaxFaults]int64
	nFaultIn    int
	faultPos    int
	FaultOut    [MaxFaults]int64
	NFaultOut   int

	gcAt    [MaxGC]int64
	nGC     int
	gcNext  int
	GCFired int64

	Events    [MaxEvents][6]int64 // step, site, from, to, kind, steps until the next scheduled preemption (-1: none)
	NEvents   int
	EventHash uint64

	Switches     int64 // hand-overs to a different task
	Preemptions  int64 // ... of kind KPreempt
	ForcedYields int64
	Deadlock     bool
	Draining     bool  // only left-behind goroutines of the code under test remain, all waiting: they are being unwound
	LeftBehind   int64 // how many such goroutines were unwound
	BudgetAborts int64
	TaskPanics   int64
	StuckOutside bool

	halting  bool
	defLimit int64

	SiteHit    [MaxSites]uint8
	SiteSwitch [MaxSites]uint8
	SiteMark   [MaxSites]uint8
	Probe      [64]int64
)

// StuckAfter bounds how long the main goroutine waits without any step.
var StuckAfter = 20 * time.Second

// Config describes one simulated phase.
type Config struct {
	Mode     int
	Seed     uint64
	Mean     uint64
	PCTDepth int
	Horizon  int64
	Replay   bool
	Tape     [][2]int64
	// faults
	FaultSeed   uint64
	FaultReplay bool
	FaultTape   []int64
	GCSteps     []int64
	Pipe        bool
	// DefaultOpLimit is the step budget of a task that never calls BeginOp
	// (0: unlimited)
	DefaultOpLimit int64
	// simulated clock (clock.go): whether the code under test uses the clock at
	// all, simulated nanoseconds per step, injected jumps (step, nanoseconds)
	Clock      bool
	ClockTick  int64
	ClockJumps [][2]int64
	// Stalls: task id, from step, to step (relative to the start of the phase):
	// a stalled task is not chosen to run while any other task can (a slow or
	// descheduled node; the fault that makes "it always finishes first" false)
	Stalls [][3]int64
}

//go:norace
func next64(s *uint64) uint64 {
	*s += 0x9e3779b97f4a7c15
	z := *s
	z = (z ^ (z >> 30)) * 0xbf58476d1ce4e5b9
	z = (z ^ (z >> 27)) * 0x94d049bb133111eb
	return z ^ (z >> 31)
}

//go:norace
func draw(n uint64) uint64 {
	z := next64(&rng)
	if n > 0 {
		z %= n
	}
	return z
}

// Init prepares a phase. Main goroutine only, no task may exist.
func Init(c Config) {
	mode, mean, rng, frng = c.Mode, c.Mean, c.Seed, c.FaultSeed
	if mean == 0 {
		mean = 1
	}
	cur, nTasks, active = -1, 0, false
	halting, Deadlock, Draining = false, false, false
	resetClosed()
	nPend, rdvActive = 0, false
	defLimit = c.DefaultOpLimit
	if defLimit <= 0 {
		defLimit = Inf
	}
	countdown, lastDec, fallback = Inf, Steps, false
	replay, nTapeIn, tapePos, pendP = c.Replay, 0, 0, 0
	for i, e := range c.Tape {
		if i < MaxTape {
			tapeIn[i] = e
			nTapeIn = i + 1
		}
	}
	NTapeOut = 0
	faultReplay, nFaultIn, faultPos, NFaultOut = c.FaultReplay, 0, 0, 0
	for i, e := range c.FaultTape {
		if i < MaxFaults {
			faultIn[i] = e
			nFaultIn = i + 1
		}
	}
	nGC, gcNext = 0, 0
	for i, s := range c.GCSteps {
		if i < MaxGC {
			gcAt[i] = s + Steps
			nGC = i + 1
		}
	}
	pctN, pctNext, pctLow = 0, 0, -1
	if mode == ModePCT && !replay {
		d := c.PCTDepth
		if d > len(pctAt) {
			d = len(pctAt)
		}
		h := c.Horizon
		if h < 1 {
			h = 1
		}
		for i := 0; i < d; i++ {
			pctAt[i] = Steps + int64(draw(uint64(h))) + 1
		}
		// insertion sort
		for i := 1; i < d; i++ {
			for j := i; j > 0 && pctAt[j] < pctAt[j-1]; j-- {
				pctAt[j], pctAt[j-1] = pctAt[j-1], pctAt[j]
			}
		}
		pctN = d
	}
	if c.Pipe && !usePipe {
		usePipe = true
		var p [2]int
		if err := syscall.Pipe(p[:]); err != nil {
			panic(err)
		}
		mainR, mainW = p[0], p[1]
	}
	for i := range tasks {
		if i == spawnerID {
			continue
		}
		if tasks[i].rfd != 0 {
			syscall.Close(tasks[i].rfd)
			syscall.Close(tasks[i].wfd)
		}
		tasks[i] = task{}
	}
	nStall = 0
	for i, st := range c.Stalls {
		if i < len(stalls) {
			stalls[i] = [3]int64{st[0], st[1] + Steps, st[2] + Steps}
			nStall = i + 1
		}
	}
	resetClock(c.ClockTick, c.ClockJumps)
	if c.Clock {
		startSpawner()
	}
}

// Spawn registers a task and starts its goroutine parked. May be called from
// the main goroutine before Run, or from a running task (any task: the
// simulator's own bookkeeping is kept out of the race detector's sight, only
// one task runs at a time).
func Spawn(f func()) int {
	id := allocTask()
	if id < 0 {
		panic("zzsim: too many tasks")
	}
	if pipeMode() {
		var p [2]int
		if err := syscall.Pipe(p[:]); err != nil {
			panic(err)
		}
		setPipe(id, p[0], p[1])
	}
	done.Add(1)
	go func() {
		park(id)
		defer done.Done()
		defer finish(id)
		defer func() {
			if r := recover(); r != nil {
				taskPanicked(id, r)
			}
		}()
		f()
	}()
	return id
}

//go:norace
func allocTask() int {
	id := nTasks
	if id >= MaxTasks-1 { // the last slot belongs to the timer spawner
		// every slot was used in this phase: take over the slot of a task that has
		// finished (its goroutine touched the slot for the last time before it
		// handed the run token on, and only the token holder gets here)
		id = -1
		for i := 0; i < nTasks; i++ {
			if tasks[i].state == stDone {
				id = i
				break
			}
		}
		if id < 0 {
			setUnsupported("more than 94 simulated tasks alive at once")
			return -1
		}
		if tasks[id].rfd != 0 {
			syscall.Close(tasks[id].rfd)
			syscall.Close(tasks[id].wfd)
		}
		tasks[id] = task{}
		SlotsReused++
	} else {
		nTasks++
	}
	t := &tasks[id]
	t.state = stRunnable
	t.opLimit = defLimit
	if mode == ModePCT && !replay {
		t.prio = int64(draw(1<<30)) + 1
	}
	return id
}

//go:norace
func pipeMode() bool { return usePipe }

//go:norace
func setPipe(id, r, w int) { tasks[id].rfd, tasks[id].wfd = r, w }

//go:norace
func taskPanicked(id int, r interface{}) {
	switch r.(type) {
	case HaltAbort, DeadlockAbort:
		// the run is ending (exit / detected deadlock, which the oracles
		// report): unwinding a task this way is expected
	case BudgetExceeded:
		// a goroutine of the code under test used up the step budget it
		// inherited (an endless loop nobody waits for any more): it just ends
		if PanicHandler == nil && !tasks[id].fromCode {
			TaskPanics++
		}
	default:
		if PanicHandler != nil {
			PanicHandler(id, r)
		} else if tasks[id].fromCode {
			CodePanics++
			if CodePanicText == "" {
				CodePanicText = panicString(r)
			}
		} else {
			TaskPanics++
		}
	}
}

func panicString(r interface{}) string {
	switch x := r.(type) {
	case error:
		return x.Error()
	case string:
		return x
	}
	return "panic with a value of a non-string, non-error type"
}

// Go is what instrumented `go f()` statements call.
func Go(f func()) {
	if !Active() {
		// started while no simulation is running (package initialisation, or
		// between two phases): a real goroutine. If it is still alive when a phase
		// starts it executes instrumented code behind the scheduler's back, which
		// the simulator cannot own: the run is then no verdict (see Run).
		outside.Add(1)
		go func() {
			defer outside.Add(-1)
			f()
		}()
		return
	}
	// a goroutine started by the code under test works within the step budget
	// of the operation that started it
	id := Spawn(f)
	inheritLimit(id)
}

// CodePanics counts panics that escaped goroutines started by the code under
// test itself (in a real process each of them ends the whole program);
// CodePanicText describes the first.
var (
	CodePanics    int64
	CodePanicText string
)

//go:norace
func inheritLimit(id int) {
	tasks[id].fromCode = true
	if lim := tasks[cur].opLimit; lim < tasks[id].opLimit {
		tasks[id].opLimit = lim
	}
}

var pipeBuf [MaxTasks + 1][1]byte

//go:norace
func park(id int) {
	if usePipe {
		for {
			n, _, e := syscall.Syscall(syscall.SYS_READ, uintptr(tasks[id].rfd), uintptr(ptr(&pipeBuf[id][0])), 1)
			if n == 1 && e == 0 {
				break
			}
		}
		tasks[id].wake = 0
		return
	}
	for tasks[id].wake == 0 {
		runtime.Gosched()
	}
	tasks[id].wake = 0
}

//go:norace
func wakeTask(id int) {
	tasks[id].wake = 1
	if usePipe {
		syscall.Syscall(syscall.SYS_WRITE, uintptr(tasks[id].wfd), uintptr(ptr(&pipeBuf[MaxTasks][0])), 1)
	}
}

//go:norace
func wakeMain() {
	mainWake = 1
	if usePipe {
		syscall.Syscall(syscall.SYS_WRITE, uintptr(mainW), uintptr(ptr(&pipeBuf[MaxTasks][0])), 1)
	}
}

//go:norace
func event(site, from, to, kind int) {
	if NEvents < MaxEvents {
		cd := countdown
		if cd >= Inf/2 {
			cd = -1
		}
		Events[NEvents] = [6]int64{Steps, int64(site), int64(from), int64(to), int64(kind), cd}
		NEvents++
	}
	h := EventHash
	if h == 0 {
		h = 0xcbf29ce484222325
	}
	h = (h ^ uint64(Steps)) * 0x100000001b3
	h = (h ^ uint64(site+7)) * 0x100000001b3
	h = (h ^ uint64(from+3)) * 0x100000001b3
	h = (h ^ uint64(to+3)) * 0x100000001b3
	h = (h ^ uint64(kind)) * 0x100000001b3
	EventHash = h
}

// eligible: a blocked task is worth scheduling only if some simulated
// primitive changed state since it last looked.
//
//go:norace
func eligible(i int) bool {
	st := tasks[i].state
	if halting && st == stBlocked {
		return true
	}
	if st == stBlocked && tasks[i].wakeAt > 0 {
		return NowNS() >= tasks[i].wakeAt // asleep: only time wakes it
	}
	return st == stRunnable || (st == stBlocked && tasks[i].blockedAt != syncEpoch)
}

// decide picks the task to run next. me is the deciding task (-1 at start).
// Candidate order: me first (only for KPreempt), then the others by id.
//
//go:norace
func decide(me, kind, site int) int {
	var cand [MaxTasks]int
	n := 0
	advanced := false
rebuild:
	n = 0
	if kind == KPreempt || kind == KYield {
		cand[0] = me
		n = 1
	}
	for i := 0; i < nTasks; i++ {
		if i != me && eligible(i) {
			cand[n] = i
			n++
		}
	}
	if advanced && kind == KBlocked && me >= 0 && eligible(me) {
		// the clock moved: what this task itself waits for may have happened
		cand[n] = me
		n++
	}
	if nStall > 0 && n > 1 && !halting {
		// stall fault: a stalled task is passed over while anybody else can run
		k := 0
		for i := 0; i < n; i++ {
			if !stalled(cand[i]) {
				cand[k] = cand[i]
				k++
			}
		}
		if k > 0 && k < n {
			n = k
			StallsApplied++
		}
	}
	if n == 0 && !Deadlock && !Draining && !halting && advanceClock(me, kind) {
		// nobody could run and something was pending on the clock: simulated
		// time jumped to it (discrete-event step)
		advanced = true
		goto rebuild
	}
	if n == 0 {
		// nobody can run. Tasks that are blocked with nothing left to wake them
		// are deadlocked: flag it and run them so that each aborts.
		for i := 0; i < nTasks; i++ {
			if i != me && tasks[i].state == stBlocked {
				cand[n] = i
				n++
			}
		}
		if n > 0 || kind == KBlocked {
			// Only goroutines that the code under test started itself are left
			// and every one of them waits: they were left behind (or are
			// background workers waiting for work that will not come), which no
			// caller is waiting for. That is not a deadlock of the program: they
			// are unwound quietly (Draining). A deadlock is reported when a task of
			// the workload itself can never proceed.
			own := kind == KBlocked && !tasks[me].fromCode
			for i := 0; i < n; i++ {
				if !tasks[cand[i]].fromCode {
					own = true
				}
			}
			if own {
				Deadlock = true
			} else {
				Draining = true
				LeftBehind += int64(n)
				if kind == KBlocked {
					LeftBehind++
				}
			}
		}
		if n == 0 {
			event(site, me, -1, kind)
			return -1
		}
	}
	var p int64
	if replay {
		p = pendP
		if p < 0 {
			p = 0
		}
		p %= int64(n)
		loadTape()
	} else {
		if NTapeOut >= MaxTape {
			// the tape is full: from here on behave exactly as a replay that
			// has run past the end of its tape (first candidate, no preemption)
			p = 0
			countdown = Inf
		} else {
			switch mode {
			case ModePCT:
				best := 0
				for i := 1; i < n; i++ {
					if tasks[cand[i]].prio > tasks[cand[best]].prio {
						best = i
					}
				}
				p = int64(best)
			default:
				p = int64(draw(uint64(n)))
			}
			c := int64(-1)
			if kind == KPreempt {
				c = Steps - lastDec
			}
			TapeOut[NTapeOut] = [2]int64{c, p}
			NTapeOut++
			if NTapeOut >= MaxTape {
				countdown = Inf
			} else {
				genCountdown()
			}
		}
	}
	lastDec = Steps
	next := cand[p]
	event(site, me, next, kind)
	return next
}

//go:norace
func loadTape() {
	if tapePos < nTapeIn {
		c := tapeIn[tapePos][0]
		pendP = tapeIn[tapePos][1]
		tapePos++
		if c <= 0 {
			c = Inf
		}
		countdown = c
		return
	}
	tapePos++
	pendP = 0
	countdown = Inf
}

//go:norace
func genCountdown() {
	switch {
	case fallback:
		countdown = int64(draw(2000)) + 1
	case mode == ModeRandom:
		countdown = int64(draw(2*mean)) + 1
	case mode == ModePCT:
		countdown = Inf
		for pctNext < pctN && pctAt[pctNext] <= Steps {
			pctNext++
		}
		if pctNext < pctN {
			countdown = pctAt[pctNext] - Steps
		}
	default:
		countdown = Inf
	}
}

//go:norace
func handTo(me, next, site, kind int) {
	if next == me {
		return
	}
	Switches++
	if kind == KPreempt {
		Preemptions++
	}
	if site >= 0 && site < MaxSites {
		SiteSwitch[site] = 1
	}
	cur = next
	wakeTask(next)
	park(me)
}

//go:norace
func finish(id int) {
	tasks[id].state = stDone
	next := decide(id, KFinish, -1)
	if next < 0 {
		cur = -1
		active = false
		wakeMain()
		return
	}
	Switches++
	cur = next
	wakeTask(next)
}

// Run hands the token to the first task and returns when every task is done.
func Run() {
	if outside.Load() > 0 {
		// give short-lived ones a moment to end
		for i := 0; i < 2000 && outside.Load() > 0; i++ {
			runtime.Gosched()
		}
		if outside.Load() > 0 {
			setUnsupported("the code under test started a goroutine outside the simulated program (package initialisation) that is still running")
		}
	}
	if replay {
		loadTape()
	}
	if !start() {
		return
	}
	waitMain()
	done.Wait()
}

//go:norace
func start() bool {
	active = true
	next := decide(-1, KStart, -3)
	if next < 0 {
		active = false
		return false
	}
	cur = next
	wakeTask(next)
	return true
}

//go:norace
func waitMain() {
	if usePipe {
		for {
			n, _, e := syscall.Syscall(syscall.SYS_READ, uintptr(mainR), uintptr(ptr(&pipeBuf[MaxTasks][0])), 1)
			if n == 1 && e == 0 {
				break
			}
		}
		mainWake = 0
		return
	}
	// A task that blocks outside the simulator freezes Steps while every other
	// goroutine spins; after StuckAfter of wall time without a step the phase is
	// abandoned with a diagnosis (infrastructure trouble, never a violation).
	// The clock is read on the main goroutine only and decides nothing else.
	var last int64 = -1
	var since time.Time
	var n int
	for mainWake == 0 {
		runtime.Gosched()
		n++
		if n&0xfffff != 0 {
			continue
		}
		s := Steps + ForcedYields
		if s != last {
			last, since = s, time.Now()
		} else if time.Since(since) > StuckAfter {
			StuckOutside = true
			return
		}
	}
	mainWake = 0
}

// Y is a yield point; the instrumenter inserts calls to it.
//
//go:norace
func Y(site int) {
	if !active {
		return
	}
	me := cur
	if halting && tasks[me].held <= 0 {
		panic(HaltAbort{})
	}
	Steps++
	SiteHit[site&(MaxSites-1)] = 1
	t := &tasks[me]
	t.state = stRunnable
	t.opSteps++
	// an exhausted budget aborts the operation at the END of this yield point:
	// the step must count towards the pending preemption like any other, or a
	// replay (whose tape measures distances in steps) would drift by one
	// (an operation that holds a simulated lock is let run until it has released
	// it, within twice the budget: the abort is the simulator's own device, a
	// real endless loop would simply hang, and unwinding a critical section that
	// has no deferred unlock would leave the lock held for everything that
	// follows in the process)
	over := t.opSteps > t.opLimit && (t.held <= 0 || t.opSteps > 2*t.opLimit)
	if over {
		t.opSteps = 0
		t.held = 0
		BudgetAborts++
	}
	if gcNext < nGC && Steps >= gcAt[gcNext] {
		gcNext++
		GCFired++
		ForceGC()
	}
	if jumpNext < nJump && Steps >= jumpAt[jumpNext] {
		clockFaults()
	}
	if Steps >= timerDueStep {
		fireDue(me)
	}
	if !replay && NTapeOut < MaxTape {
		if t.opSteps == t.opLimit>>1 && !fallback && nTasks > 1 {
			// an operation that has used half its budget without finishing may
			// be spinning on something another task must release: make sure
			// preemption happens from now on (decisions are still recorded)
			fallback = true
			if countdown > 2000 {
				countdown = 1
			}
		}
		if mode == ModeSite && SiteMark[site&(MaxSites-1)] != 0 && draw(mean) == 0 {
			countdown = 1
		}
	}
	countdown--
	if countdown <= 0 {
		if mode == ModePCT && !replay && pctNext < pctN && pctAt[pctNext] <= Steps {
			// priority change point: the running task drops below everyone
			t.prio = pctLow
			pctLow--
		}
		next := decide(me, KPreempt, site)
		handTo(me, next, site, KPreempt)
	}
	if over {
		panic(BudgetExceeded{})
	}
}

// Progress is called by zzsimsync when a primitive was acquired.
//
//go:norace
func Progress() {
	if active {
		syncEpoch++
		tasks[cur].state = stRunnable
	}
}

// Blocked is called when a primitive cannot proceed: a forced yield. The
// caller re-tests its primitive when it is scheduled again.
//
//go:norace
func Blocked() {
	if !active {
		runtime.Gosched()
		return
	}
	if halting {
		if tasks[cur].held > 0 {
			LocksLeftHeld++
		}
		panic(HaltAbort{})
	}
	if Deadlock || Draining {
		tasks[cur].wakeAt = 0
		panic(DeadlockAbort{})
	}
	me := cur
	t := &tasks[me]
	t.state = stBlocked
	t.blockedAt = syncEpoch
	ForcedYields++
	next := decide(me, KBlocked, -2)
	if Deadlock || Draining {
		// nothing can ever release what this task waits for
		t.state = stRunnable
		t.wakeAt = 0
		panic(DeadlockAbort{})
	}
	handTo(me, next, -2, KBlocked)
	t.wakeAt = 0
	if halting {
		t.state = stRunnable
		panic(HaltAbort{})
	}
}

// Held is called by zzsimsync when the running task has acquired (+1) or
// released (-1) a lock. When the simulated program exits, a task that is inside
// a critical section is not unwound on the spot: it runs on until it holds no
// lock (what it does after the exit is invisible - zzsimos drops output - and
// in a real process it would simply be gone), so that a lock of the code under
// test is never left locked for the reference runs that follow in the same
// process. LocksLeftHeld counts the cases in which that was not possible.
//
//go:norace
func Held(d int32) {
	if !active || cur < 0 {
		return
	}
	t := &tasks[cur]
	t.held += d
	if t.held < 0 {
		t.held = 0 // unlocked by another task than the one that locked
	}
}

var LocksLeftHeld int64

// Halt makes every other task abort at its next yield point or wait: the
// simulated program is exiting. The caller keeps running.
//
//go:norace
func Halt() {
	if active {
		halting = true
		syncEpoch++
	}
}

//go:norace
func Halting() bool { return halting }

// Fault draws one fault decision in [0,n) from the fault stream (recorded).
//
//go:norace
func Fault(n uint64) uint64 {
	var v int64
	if faultReplay {
		if faultPos < nFaultIn {
			v = faultIn[faultPos]
		}
		faultPos++
	} else {
		v = int64(next64(&frng) >> 1)
	}
	if n > 0 {
		v %= int64(n)
	}
	if !faultReplay && NFaultOut < MaxFaults {
		FaultOut[NFaultOut] = v
		NFaultOut++
	}
	return uint64(v)
}

// MinBlock is the smallest block size any pool was created with since it was
// last reset (the instrumenter puts a NoteBlockSize call into the pools'
// NewPool): with the block-size knob set, a tree that derives a size from
// DefaultBlockSize may arrive at a non-positive one, which is outside what the
// pools promise anything for.
var MinBlock int64 = 1 << 62

//go:norace
func NoteBlockSize(n int) {
	if int64(n) < MinBlock {
		MinBlock = int64(n)
	}
}

// BeginOp sets the step budget of the running task's next operation.
//
//go:norace
func BeginOp(limit int64) {
	if !active {
		return
	}
	tasks[cur].opSteps = 0
	tasks[cur].opLimit = limit
}

//go:norace
func Active() bool { return active }

//go:norace
func Cur() int { return cur }

//go:norace
func AddProbe(i int, d int64) { Probe[i&63] += d }
