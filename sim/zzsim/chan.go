package zzsim

import (
	"reflect"
	"runtime"
)

// The set of channels the code under test has closed (the instrumenter puts a
// Closed call in front of every close): an open-addressing hash set of channel
// addresses. The channels are kept reachable so that their addresses cannot be
// reused while the set is in use; Init empties it.
const closedBits = 16
const maxClosed = 1 << closedBits

var closedSet [maxClosed]uintptr
var closedKeep [maxClosed]interface{}
var nClosed int

//go:norace
func closedSlot(p uintptr) int {
	h := int((uint64(p) * 0x9e3779b97f4a7c15) >> (64 - closedBits))
	for closedSet[h] != 0 && closedSet[h] != p {
		h = (h + 1) & (maxClosed - 1)
	}
	return h
}

//go:norace
func isClosed(p uintptr) bool {
	return p != 0 && nClosed > 0 && closedSet[closedSlot(p)] == p
}

//go:norace
func markClosed(p uintptr, ch interface{}) {
	if p == 0 {
		return
	}
	if nClosed >= maxClosed/2 {
		setUnsupported("more than 32768 channels closed in one simulated phase")
		return
	}
	h := closedSlot(p)
	if closedSet[h] != p {
		closedSet[h] = p
		closedKeep[h] = ch
		nClosed++
	}
}

//go:norace
func resetClosed() {
	if nClosed == 0 {
		return
	}
	for i := range closedSet {
		closedSet[i] = 0
		closedKeep[i] = nil
	}
	nClosed = 0
}

// WaitRecv yields until a receive on the channel ch cannot block. The real
// receive that follows then never blocks while the run token is held, and its
// real happens-before edge stays visible to the race detector. For an
// unbuffered channel see rendezvous.
func WaitRecv(ch interface{}) {
	if !Active() {
		return
	}
	// class "sync": a yield point BEFORE the operation is attempted (never between
	// the readiness test below and the operation itself, which must not block;
	// and not in a task that was woken out of Select as the partner of a
	// rendezvous: it runs this one statement without holding the run token)
	if !rdvInProgress() {
		Y(SiteSyncAcq)
	}
	v := reflect.ValueOf(ch)
	p := v.Pointer()
	if p != 0 && v.Cap() == 0 {
		rendezvous(p, false)
		return
	}
	for v.Len() == 0 && !isClosed(p) {
		Blocked()
	}
	Progress()
}

// WaitSend yields until a send on the channel ch cannot block.
func WaitSend(ch interface{}) {
	if !Active() {
		return
	}
	if !rdvInProgress() {
		Y(SiteSyncAcq)
	}
	v := reflect.ValueOf(ch)
	if p := v.Pointer(); p != 0 && v.Cap() == 0 {
		rendezvous(p, true)
		return
	}
	for v.Len() == v.Cap() && !isClosed(v.Pointer()) {
		Blocked()
	}
	Progress()
}

// ---- unbuffered channels
//
// A send and a receive on an unbuffered channel complete together, so for the
// length of ONE statement two tasks must run. The task that arrives first
// registers itself as pending and parks. The task that arrives second (the
// initiator) keeps the run token, wakes the pending peer for exactly its channel
// statement and goes on to execute its own; the two real operations meet in the
// Go runtime (with their real happens-before edge). The instrumenter puts
// AfterChanOp behind every such statement: there the peer parks again as an
// ordinary runnable task, and the initiator waits until it has. Nothing but the
// peer's channel statement ever runs without the token, which task is matched
// is first-come first-served, and no scheduling decision is involved, so runs
// stay deterministic.

const maxPend = 128

type pendOp struct {
	ch   uintptr
	task int
	send bool
	sel  bool // registered by a task waiting in Select; idx is the case
	idx  int
}

var (
	pends       [maxPend]pendOp
	nPend       int
	rdvActive   bool // a woken peer has not parked again yet
	rdvPeer     int
	rdvPeerSend bool
	Rendezvous  int64
)

//go:norace
func rdvInProgress() bool { return rdvActive }

//go:norace
func findPend(p uintptr, send bool) int {
	for i := 0; i < nPend; i++ {
		if pends[i].ch == p && pends[i].send == send {
			return i
		}
	}
	return -1
}

//go:norace
func removePend(i int) {
	for ; i+1 < nPend; i++ {
		pends[i] = pends[i+1]
	}
	nPend--
}

//go:norace
func removeMyPend(p uintptr, me int, send bool) {
	for i := 0; i < nPend; i++ {
		if pends[i].ch == p && pends[i].task == me && pends[i].send == send {
			removePend(i)
			return
		}
	}
}

//go:norace
func removeTaskPends(task int) {
	k := 0
	for i := 0; i < nPend; i++ {
		if pends[i].task != task {
			pends[k] = pends[i]
			k++
		}
	}
	nPend = k
}

//go:norace
func rendezvous(p uintptr, send bool) {
	if rdvActive {
		// the caller is the peer that was woken out of Select for exactly this
		// channel statement (the initiator is inside its own statement or waits
		// in AfterChanOp): already matched
		return
	}
	me := cur
	for {
		if halting {
			// the simulated program is exiting: no partner will ever execute its
			// half of a rendezvous again
			panic(HaltAbort{})
		}
		if isClosed(p) {
			// a receive returns at once, a send panics: both without blocking
			Progress()
			return
		}
		if i := findPend(p, !send); i >= 0 {
			peer := pends[i].task
			if pends[i].sel {
				tasks[peer].selCase = int32(pends[i].idx)
				removeTaskPends(peer)
			} else {
				removePend(i)
			}
			tasks[peer].rdv = 1
			tasks[peer].state = stRunnable
			rdvActive, rdvPeer, rdvPeerSend = true, peer, !send
			Rendezvous++
			syncEpoch++
			tasks[me].state = stRunnable
			wakeTask(peer) // the peer runs its channel statement, without the token
			return         // and this task runs its own, with it
		}
		if nPend >= maxPend {
			Unsupported = "too many tasks pending on unbuffered channels"
			panic("zzsim: pending table full")
		}
		pends[nPend] = pendOp{ch: p, task: me, send: send}
		nPend++
		Blocked()
		if tasks[me].rdv == 1 {
			return // matched: execute the statement now, AfterChanOp parks this task again
		}
		removeMyPend(p, me, send)
	}
}

// AfterChanOp follows every statement-level send and receive in instrumented
// code (isSend says which it was).
//
//go:norace
func AfterChanOp(isSend bool) {
	if !active {
		return
	}
	if !rdvActive {
		// class "sync": right after a completed channel operation
		Y(SiteSyncRel)
		return
	}
	if isSend == rdvPeerSend {
		// the woken peer: back to being an ordinary parked, runnable task
		me := rdvPeer
		tasks[me].rdv = 0
		rdvActive = false
		park(me)
		return
	}
	// the initiator: wait until the peer has parked again
	for rdvActive {
		runtime.Gosched()
	}
	Y(SiteSyncRel)
}

// Closed records that ch is about to be closed.
func Closed(ch interface{}) {
	markClosed(reflect.ValueOf(ch).Pointer(), ch)
	Progress()
}

// Unsupported is set when the code under test used a construct the simulator
// cannot bring under its control; the run is then infrastructure trouble.
var Unsupported string

// Gosched replaces runtime.Gosched in instrumented code: a forced yield that
// does not count towards deadlock detection.
//
//go:norace
func Gosched() {
	if !active {
		return
	}
	me := cur
	ForcedYields++
	syncEpoch++ // a spin-wait on ordinary memory may be satisfied by any step
	next := decide(me, KYield, -4)
	handTo(me, next, -4, KYield)
}

// probe indices shared with the harness
const (
	ProbePoolMiss = 0
	ProbePoolDrop = 1
)

// Select is what an instrumented select statement switches on: the index of
// the case to execute (-1: the default clause). A case is ready when its
// channel is closed, when a buffered channel has an element / free space, or -
// unbuffered - when another task is waiting to do the opposite operation.
// Among several ready cases the simulator chooses (a recorded decision; the Go
// runtime would choose at random). With nothing ready and no default clause the
// task registers on its unbuffered channels, so that a task arriving later at a
// plain send or receive can pick it as its partner, and yields.
func Select(chans []interface{}, send []bool, hasDefault bool) int {
	if !Active() {
		return selectOutside(chans, send, hasDefault)
	}
	me := Cur()
	for {
		var ready [64]int
		n := 0
		for i, ch := range chans {
			v := reflect.ValueOf(ch)
			if v.Kind() != reflect.Chan || v.IsNil() || n >= len(ready) {
				continue
			}
			p := v.Pointer()
			switch {
			case isClosed(p):
				ready[n] = i
				n++
			case v.Cap() == 0:
				if pendOther(p, !send[i], me) {
					ready[n] = i
					n++
				}
			case send[i]:
				if v.Len() < v.Cap() {
					ready[n] = i
					n++
				}
			default:
				if v.Len() > 0 {
					ready[n] = i
					n++
				}
			}
		}
		if n > 0 {
			removeTaskPends(me)
			k := 0
			if n > 1 {
				k = choose(n)
			}
			Progress()
			return ready[k]
		}
		if hasDefault {
			removeTaskPends(me)
			return -1
		}
		removeTaskPends(me)
		for i, ch := range chans {
			v := reflect.ValueOf(ch)
			if v.Kind() != reflect.Chan || v.IsNil() || v.Cap() != 0 {
				continue
			}
			if !addSelPend(v.Pointer(), me, send[i], i) {
				setUnsupported("too many tasks pending on unbuffered channels")
				panic("zzsim: pending table full")
			}
		}
		Blocked()
		if matched(me) {
			return selCaseOf(me) // woken as the partner of a plain send/receive: run that case
		}
	}
}

//go:norace
func matched(me int) bool { return tasks[me].rdv == 1 }

//go:norace
func selCaseOf(me int) int { return int(tasks[me].selCase) }

//go:norace
func setUnsupported(s string) {
	if Unsupported == "" {
		Unsupported = s
	}
}

//go:norace
func pendOther(p uintptr, send bool, me int) bool {
	for i := 0; i < nPend; i++ {
		if pends[i].ch == p && pends[i].send == send && pends[i].task != me {
			return true
		}
	}
	return false
}

//go:norace
func addSelPend(p uintptr, me int, send bool, idx int) bool {
	if nPend >= maxPend {
		return false
	}
	pends[nPend] = pendOp{ch: p, task: me, send: send, sel: true, idx: idx}
	nPend++
	return true
}

// choose draws one of n alternatives from the schedule stream: a decision like
// a task switch, recorded on the tape and replayed from it.
//
//go:norace
func choose(n int) int {
	var p int64
	if replay {
		p = pendP
		if p < 0 {
			p = 0
		}
		p %= int64(n)
		loadTape()
	} else if NTapeOut >= MaxTape {
		p = 0
		countdown = Inf
	} else {
		p = int64(draw(uint64(n)))
		TapeOut[NTapeOut] = [2]int64{-1, p}
		NTapeOut++
		if NTapeOut >= MaxTape {
			countdown = Inf
		} else {
			genCountdown()
		}
	}
	lastDec = Steps
	event(-5, cur, int(p), KSelect)
	return int(p)
}

// selectOutside: a select executed while no simulation is running (the
// repository's own tests on the instrumented copy). Buffered and closed
// channels are polled; an unbuffered one can only become ready by being closed.
func selectOutside(chans []interface{}, send []bool, hasDefault bool) int {
	for {
		for i, ch := range chans {
			v := reflect.ValueOf(ch)
			if v.Kind() != reflect.Chan || v.IsNil() {
				continue
			}
			if isClosed(v.Pointer()) {
				return i
			}
			if v.Cap() > 0 && ((send[i] && v.Len() < v.Cap()) || (!send[i] && v.Len() > 0)) {
				return i
			}
		}
		if hasDefault {
			return -1
		}
		runtime.Gosched()
	}
}
