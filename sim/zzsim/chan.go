package zzsim

import "reflect"

const maxClosed = 256

var closedSet [maxClosed]uintptr
var nClosed int

//go:norace
func isClosed(p uintptr) bool {
	for i := 0; i < nClosed; i++ {
		if closedSet[i] == p {
			return true
		}
	}
	return false
}

//go:norace
func markClosed(p uintptr) {
	if nClosed < maxClosed {
		closedSet[nClosed] = p
		nClosed++
	}
}

// WaitRecv yields until a receive on the buffered channel ch cannot block. The
// real receive that follows then never blocks while the run token is held, and
// its real happens-before edge stays visible to the race detector.
func WaitRecv(ch interface{}) {
	if !Active() {
		return
	}
	v := reflect.ValueOf(ch)
	p := v.Pointer()
	if p != 0 && v.Cap() == 0 && !isClosed(p) {
		Unsupported = "receive on unbuffered channel"
		panic("zzsim: unbuffered channel not supported")
	}
	for v.Len() == 0 && !isClosed(p) {
		Blocked()
	}
	Progress()
}

// WaitSend yields until a send on the buffered channel ch cannot block.
func WaitSend(ch interface{}) {
	if !Active() {
		return
	}
	v := reflect.ValueOf(ch)
	if v.Cap() == 0 {
		Unsupported = "send on unbuffered channel"
		panic("zzsim: unbuffered channel not supported")
	}
	for v.Len() == v.Cap() {
		Blocked()
	}
	Progress()
}

// Closed records that ch is about to be closed.
func Closed(ch interface{}) {
	markClosed(reflect.ValueOf(ch).Pointer())
	Progress()
}

// Unsupported is set when the code under test used a construct the simulator
// cannot bring under its control; the run is then infrastructure trouble.
var Unsupported string

// Gosched replaces runtime.Gosched in instrumented code: a forced yield that
// does not count towards deadlock detection.
//
//go:norace
func Gosched() {
	if !active {
		return
	}
	me := cur
	ForcedYields++
	syncEpoch++ // a spin-wait on ordinary memory may be satisfied by any step
	next := decide(me, KYield, -4)
	handTo(me, next, -4, KYield)
}

// probe indices shared with the harness
const (
	ProbePoolMiss = 0
	ProbePoolDrop = 1
)

// WaitSelect yields until at least one case of a select statement without a
// default clause can proceed: a receive on a non-empty or closed channel, or a
// send on a channel with free buffer space.
func WaitSelect(chans []interface{}, send []bool) {
	if !Active() {
		return
	}
	for {
		for i, ch := range chans {
			v := reflect.ValueOf(ch)
			if v.Kind() != reflect.Chan || v.IsNil() {
				continue
			}
			if v.Cap() == 0 && !isClosed(v.Pointer()) {
				Unsupported = "select on unbuffered channel"
				panic("zzsim: unbuffered channel not supported")
			}
			if send[i] {
				if v.Cap() > 0 && v.Len() < v.Cap() {
					Progress()
					return
				}
				if isClosed(v.Pointer()) { // would panic, as the real send does
					Progress()
					return
				}
			} else if v.Len() > 0 || isClosed(v.Pointer()) {
				Progress()
				return
			}
		}
		Blocked()
	}
}
