package zzsim

import (
	"runtime"
	"syscall"
	"time"
)

// The simulated clock (DESIGN.md §14). Instrumented code that imports "time"
// and touches the clock (Now, Since, Sleep, After, AfterFunc, NewTimer,
// NewTicker, Tick) is redirected to package zzsimtime, which calls in here.
//
// Simulated time = clockBase + Steps*ClockTick nanoseconds: it advances with
// the step counter at a per-run speed (ClockTick, possibly 0), is moved forward
// by injected clock-jump faults, and - discrete-event style - jumps to the next
// pending timer or sleeper whenever no task can run. Every deadline of the
// code under test reads this clock; nothing here reads the real one.
//
// Firing a timer needs two real goroutine-level effects that must not create
// happens-before edges between unrelated tasks: a send on the timer's channel,
// or the start of the AfterFunc goroutine. Both are done by a child of the
// "spawner", a goroutine started by the main goroutine at Init that never
// acquires anything from any task: the child inherits a pristine history,
// acquires the timer's own creation edge (as the Go runtime does for real
// timers) and then sends or runs. The task that noticed the expiry waits,
// parked, until the spawner is done, so still only one task ever runs.

const (
	MaxTimers = 512
	MaxJumps  = 8
	spawnerID = MaxTasks - 1 // reserved slot: wake flag / pipe of the spawner goroutine

	// SiteSleep is the reserved yield site of a simulated Sleep
	SiteSleep = MaxSites - 3
)

// SimTimer is one simulated timer, ticker or AfterFunc.
type SimTimer struct {
	when   int64 // simulated ns at which it fires next; 0: inactive
	period int64 // > 0: a ticker
	C      chan time.Time
	f      func()
	hb     chan struct{} // creation (or Reset) happens-before firing
	slot   int
}

var (
	// ClockTick: simulated nanoseconds per step (per-run knob)
	ClockTick int64
	clockBase int64

	timerTab     [MaxTimers]*SimTimer
	nTimerSlots  int
	timerDueStep = Inf // value of Steps from which some timer is due (ClockTick > 0 only)

	jumpAt   [MaxJumps]int64
	jumpBy   [MaxJumps]int64
	nJump    int
	jumpNext int

	spawnerUp   bool
	spawnerReq  int // requesting task (-1: none)
	childDone   int32
	dueList     [MaxTimers]*SimTimer
	nDue        int
	spawnerQuit bool

	ClockJumps      int64 // discrete-event jumps: nobody could run, the clock moved to the next event
	ClockJumpFaults int64 // injected clock jumps
	TimersFired     int64
	SleepsDone      int64
	TimersCreated   int64
)

var simEpoch = time.Date(2021, 3, 4, 5, 6, 7, 0, time.UTC)

//go:norace
func NowNS() int64 { return clockBase + Steps*ClockTick }

// SimNow is the simulated wall-clock time.
//
//go:norace
func SimNow() time.Time { return simEpoch.Add(time.Duration(NowNS())) }

// ClockUsed reports whether the code under test created timers or slept.
//
//go:norace
func ClockUsed() bool { return TimersCreated+SleepsDone > 0 }

// resetClock is called by Init (main goroutine, no task exists).
func resetClock(tick int64, jumps [][2]int64) {
	ClockTick = tick
	for i := 0; i < nTimerSlots; i++ {
		timerTab[i] = nil
	}
	nTimerSlots = 0
	timerDueStep = Inf
	nJump, jumpNext = 0, 0
	for i, j := range jumps {
		if i < MaxJumps {
			jumpAt[i], jumpBy[i] = j[0]+Steps, j[1]
			nJump = i + 1
		}
	}
	nDue, spawnerReq = 0, -1
	phaseFired, phaseJumps = 0, 0
}

// bounds per phase: a ticker that fires every few steps would turn a run into
// nothing but timer hand-overs, and a periodic timer served by a goroutine of
// the code under test would keep a deadlocked program's clock jumping for ever
const (
	maxPhaseFired = 20000 // then the clock stops advancing with the steps (it still jumps when nobody can run)
	maxPhaseJumps = 20000 // then nothing pending on the clock counts any more: a deadlock is a deadlock
)

var (
	phaseFired, phaseJumps int64
	ClockSlowed            int64
)

// startSpawner starts the pristine goroutine that fires timers. Main goroutine
// only (Init), so that it inherits no task's history.
func startSpawner() {
	if spawnerUp {
		return
	}
	spawnerUp = true
	// the spawner always sleeps in the kernel on its own pipe (raw system calls:
	// invisible to the race detector like every hand-over, and no spinning)
	var p [2]int
	if err := syscall.Pipe(p[:]); err != nil {
		panic(err)
	}
	spawnR, spawnW = p[0], p[1]
	go spawnerLoop()
}

func spawnerLoop() {
	for {
		parkSpawner()
		if spawnerStop() {
			return
		}
		n := dueCount()
		for i := 0; i < n; i++ {
			t := dueAt(i)
			f, hb, _ := timerParts(t)
			if f != nil {
				id := Spawn(func() {
					select {
					case <-hb:
					default:
					}
					f()
				})
				adoptTimerTask(id)
				continue
			}
			setChildDone(0)
			go fireChan(t)
			for getChildDone() == 0 {
				runtime.Gosched()
			}
		}
		spawnerFinished()
	}
}

// fireChan runs on a fresh goroutine whose only ancestor is the spawner.
func fireChan(t *SimTimer) {
	_, hb, c := timerParts(t)
	now := SimNow()
	select {
	case <-hb: // the edge from the timer's creation / last Reset
	default:
	}
	select {
	case c <- now:
	default: // as the runtime does: a tick nobody collected is dropped
	}
	setChildDone(1)
}

// timerParts reads a timer's fields out of the race detector's sight (they were
// written by the task that created the timer; the hand-over is hidden).
//
//go:norace
func timerParts(t *SimTimer) (func(), chan struct{}, chan time.Time) { return t.f, t.hb, t.C }

var spawnR, spawnW int
var spawnBuf [2][1]byte

//go:norace
func parkSpawner() {
	for {
		n, _, e := syscall.Syscall(syscall.SYS_READ, uintptr(spawnR), uintptr(ptr(&spawnBuf[0][0])), 1)
		if n == 1 && e == 0 {
			return
		}
	}
}

//go:norace
func wakeSpawner() {
	syscall.Syscall(syscall.SYS_WRITE, uintptr(spawnW), uintptr(ptr(&spawnBuf[1][0])), 1)
}

//go:norace
func setChildDone(v int32) { childDone = v }

//go:norace
func getChildDone() int32 { return childDone }

//go:norace
func spawnerStop() bool { return spawnerQuit }

//go:norace
func dueCount() int { return nDue }

//go:norace
func dueAt(i int) *SimTimer { return dueList[i] }

//go:norace
func adoptTimerTask(id int) {
	tasks[id].fromCode = true
	if r := spawnerReq; r >= 0 && r < MaxTasks {
		if lim := tasks[r].opLimit; lim < tasks[id].opLimit {
			tasks[id].opLimit = lim
		}
	}
}

//go:norace
func spawnerFinished() {
	r := spawnerReq
	spawnerReq = -1
	nDue = 0
	wakeTask(r)
}

// recalcDue recomputes the step from which the earliest timer is due.
//
//go:norace
func recalcDue() {
	timerDueStep = Inf
	if ClockTick <= 0 {
		return
	}
	first := int64(0)
	for i := 0; i < nTimerSlots; i++ {
		if t := timerTab[i]; t != nil && t.when > 0 && (first == 0 || t.when < first) {
			first = t.when
		}
	}
	if first == 0 {
		return
	}
	d := first - clockBase
	if d <= 0 {
		timerDueStep = 0
		return
	}
	timerDueStep = (d + ClockTick - 1) / ClockTick
}

// fireDue fires every timer that is due. The caller is the running task me (it
// holds the token); while the spawner works the caller is parked.
//
//go:norace
func fireDue(me int) bool {
	if me < 0 {
		return false
	}
	now := NowNS()
	n := 0
	for i := 0; i < nTimerSlots; i++ {
		t := timerTab[i]
		if t == nil || t.when == 0 || t.when > now {
			continue
		}
		if t.period > 0 {
			t.when += t.period
			if t.when <= now {
				t.when = now + t.period
			}
		} else {
			t.when = 0
			timerTab[i] = nil
		}
		dueList[n] = t
		n++
	}
	if n == 0 {
		recalcDue()
		return false
	}
	TimersFired += int64(n)
	phaseFired += int64(n)
	if phaseFired > maxPhaseFired && ClockTick != 0 {
		clockBase += Steps * ClockTick // freeze the step-driven part at its present value
		ClockTick = 0
		ClockSlowed++
	}
	nDue = n
	spawnerReq = me
	wakeSpawner()
	park(me)
	syncEpoch++
	recalcDue()
	return true
}

// nextEvent: the earliest simulated time at which something that is pending now
// happens (a sleeper wakes, a timer fires); 0 if nothing is pending. A ticker
// whose last tick was not collected can wake nobody and does not count.
//
//go:norace
func nextEvent() int64 {
	first := int64(0)
	for i := 0; i < nTasks; i++ {
		if tasks[i].state == stBlocked && tasks[i].wakeAt > 0 && (first == 0 || tasks[i].wakeAt < first) {
			first = tasks[i].wakeAt
		}
	}
	for i := 0; i < nTimerSlots; i++ {
		t := timerTab[i]
		if t == nil || t.when == 0 {
			continue
		}
		if t.period > 0 && t.f == nil && len(t.C) == cap(t.C) {
			continue
		}
		if first == 0 || t.when < first {
			first = t.when
		}
	}
	return first
}

// workloadAlive: some task that is not a goroutine started by the code under
// test itself is still unfinished (time only passes for the sake of those: a
// ticker goroutine left behind must not keep the clock running for ever).
//
//go:norace
func workloadAlive(me, kind int) bool {
	for i := 0; i < nTasks; i++ {
		if tasks[i].state != stDone && tasks[i].state != stFree && !tasks[i].fromCode {
			if i == me && kind == KFinish {
				continue
			}
			return true
		}
	}
	return false
}

// advanceClock is called by decide when no task can run: if something is
// pending on the clock, time jumps there (discrete-event step).
//
//go:norace
func advanceClock(me, kind int) bool {
	if !workloadAlive(me, kind) || phaseJumps >= maxPhaseJumps {
		return false
	}
	at := nextEvent()
	if at == 0 {
		return false
	}
	if now := NowNS(); at > now {
		clockBase += at - now
		ClockJumps++
		phaseJumps++
	}
	fireDue(fireCaller(me, kind))
	return true
}

// fireCaller: the goroutine that is executing decide and can be parked while
// the spawner works (a finishing task is still that task's goroutine).
//
//go:norace
func fireCaller(me, kind int) int { return me }

// newSimTimer registers a timer. Called by the running task.
func newSimTimer(d, period int64, f func(), withChan bool) *SimTimer {
	hb := make(chan struct{}, 1)
	var c chan time.Time
	if withChan {
		c = make(chan time.Time, 1)
	}
	hb <- struct{}{}
	t := makeTimer(period, f, hb, c)
	armTimer(t, d)
	return t
}

//go:norace
func makeTimer(period int64, f func(), hb chan struct{}, c chan time.Time) *SimTimer {
	return &SimTimer{period: period, f: f, hb: hb, C: c}
}

//go:norace
func setPeriod(t *SimTimer, d int64) {
	if t.period > 0 {
		t.period = d
	}
}

//go:norace
func armTimer(t *SimTimer, d int64) {
	if d < 1 {
		d = 1
	}
	TimersCreated++
	t.when = NowNS() + d
	slot := -1
	for i := 0; i < nTimerSlots; i++ {
		if timerTab[i] == t {
			slot = i
			break
		}
		if timerTab[i] == nil && slot < 0 {
			slot = i
		}
	}
	if slot < 0 {
		if nTimerSlots >= MaxTimers {
			setUnsupported("more than 512 simulated timers pending")
			t.when = 0
			return
		}
		slot = nTimerSlots
		nTimerSlots++
	}
	timerTab[slot] = t
	t.slot = slot
	recalcDue()
}

//go:norace
func disarmTimer(t *SimTimer) bool {
	was := t.when != 0
	t.when = 0
	if t.slot < nTimerSlots && timerTab[t.slot] == t {
		timerTab[t.slot] = nil
	}
	recalcDue()
	return was
}

// NewTimer / AfterFunc / NewTicker for zzsimtime (simulation active).
func NewTimer(d time.Duration) *SimTimer { return newSimTimer(int64(d), 0, nil, true) }
func AfterFunc(d time.Duration, f func()) *SimTimer {
	return newSimTimer(int64(d), 0, f, false)
}
func NewTicker(d time.Duration) *SimTimer { return newSimTimer(int64(d), int64(d), nil, true) }

// Chan is the timer's channel.
//
//go:norace
func (t *SimTimer) Chan() chan time.Time { return t.C }

// Stop prevents the timer from firing; true if it was still pending.
func (t *SimTimer) Stop() bool { return disarmTimer(t) }

// Reset re-arms the timer; true if it was still pending.
func (t *SimTimer) Reset(d time.Duration) bool {
	was := disarmTimer(t)
	_, hb, _ := timerParts(t)
	select {
	case hb <- struct{}{}:
	default:
	}
	setPeriod(t, int64(d))
	armTimer(t, int64(d))
	return was
}

// Sleep blocks the running task for d of simulated time.
//
//go:norace
func Sleep(d time.Duration) {
	if !active {
		time.Sleep(d)
		return
	}
	Y(SiteSleep)
	if d <= 0 {
		return
	}
	me := cur
	wake := NowNS() + int64(d)
	for NowNS() < wake {
		tasks[me].wakeAt = wake // Blocked clears it on every way out
		Blocked()
	}
	tasks[me].state = stRunnable
	SleepsDone++
}

// clockFaults is called from Y: injected clock jumps.
//
//go:norace
func clockFaults() {
	for jumpNext < nJump && Steps >= jumpAt[jumpNext] {
		clockBase += jumpBy[jumpNext]
		jumpNext++
		ClockJumpFaults++
	}
	recalcDue()
}
