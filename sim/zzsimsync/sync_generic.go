//go:build go1.21

package zzsimsync

func OnceValue[T any](f func() T) func() T {
	var once Once
	var valid bool
	var p interface{}
	var result T
	g := func() {
		defer func() {
			p = recover()
			if !valid {
				panic(p)
			}
		}()
		result = f()
		f = nil
		valid = true
	}
	return func() T {
		once.Do(g)
		if !valid {
			panic(p)
		}
		return result
	}
}

func OnceValues[T1, T2 any](f func() (T1, T2)) func() (T1, T2) {
	var once Once
	var valid bool
	var p interface{}
	var r1 T1
	var r2 T2
	g := func() {
		defer func() {
			p = recover()
			if !valid {
				panic(p)
			}
		}()
		r1, r2 = f()
		f = nil
		valid = true
	}
	return func() (T1, T2) {
		once.Do(g)
		if !valid {
			panic(p)
		}
		return r1, r2
	}
}
