// Package zzsimsync replaces "sync" in the instrumented copy: same API, real
// primitives underneath (so the race detector sees their happens-before edges),
// but a primitive that would block yields to the simulator instead of blocking
// the goroutine that holds the run token.
package zzsimsync

import (
	"sync"

	"github.com/z7zmey/php-parser/pkg/zzsim"
)

type Locker = sync.Locker
type Map = sync.Map

type Mutex struct{ m sync.Mutex }

func (m *Mutex) Lock() {
	for !m.m.TryLock() {
		zzsim.Blocked()
	}
	zzsim.Progress()
}
func (m *Mutex) TryLock() bool { return m.m.TryLock() }
func (m *Mutex) Unlock()       { m.m.Unlock(); zzsim.Progress() }

type RWMutex struct{ m sync.RWMutex }

func (m *RWMutex) Lock() {
	for !m.m.TryLock() {
		zzsim.Blocked()
	}
	zzsim.Progress()
}
func (m *RWMutex) TryLock() bool { return m.m.TryLock() }
func (m *RWMutex) Unlock()       { m.m.Unlock(); zzsim.Progress() }
func (m *RWMutex) RLock() {
	for !m.m.TryRLock() {
		zzsim.Blocked()
	}
	zzsim.Progress()
}
func (m *RWMutex) TryRLock() bool  { return m.m.TryRLock() }
func (m *RWMutex) RUnlock()        { m.m.RUnlock(); zzsim.Progress() }
func (m *RWMutex) RLocker() Locker { return (*rlocker)(m) }

type rlocker RWMutex

func (r *rlocker) Lock()   { (*RWMutex)(r).RLock() }
func (r *rlocker) Unlock() { (*RWMutex)(r).RUnlock() }

type Once struct {
	m    Mutex
	done bool
}

func (o *Once) Do(f func()) {
	o.m.Lock()
	defer o.m.Unlock()
	if !o.done {
		defer func() { o.done = true }()
		f()
	}
}

type WaitGroup struct {
	m sync.Mutex
	n int
}

func (w *WaitGroup) Add(d int) {
	w.m.Lock()
	w.n += d
	if w.n < 0 {
		w.m.Unlock()
		panic("sync: negative WaitGroup counter")
	}
	w.m.Unlock()
	zzsim.Progress()
}
func (w *WaitGroup) Done() { w.Add(-1) }
func (w *WaitGroup) Wait() {
	for {
		w.m.Lock()
		z := w.n == 0
		w.m.Unlock()
		if z {
			zzsim.Progress()
			return
		}
		zzsim.Blocked()
	}
}

// Cond: Wait releases L, yields until a later Signal/Broadcast, re-acquires L.
type Cond struct {
	L   Locker
	m   sync.Mutex
	gen uint64 // incremented by Broadcast
	sig uint64 // outstanding Signal tickets
	wtg uint64 // waiters
}

func NewCond(l Locker) *Cond { return &Cond{L: l} }

func (c *Cond) Wait() {
	c.m.Lock()
	g := c.gen
	c.wtg++
	c.m.Unlock()
	c.L.Unlock()
	for {
		c.m.Lock()
		ok := c.gen != g
		if !ok && c.sig > 0 {
			c.sig--
			ok = true
		}
		if ok {
			c.wtg--
		}
		c.m.Unlock()
		if ok {
			break
		}
		zzsim.Blocked()
	}
	zzsim.Progress()
	c.L.Lock()
}

func (c *Cond) Signal() {
	c.m.Lock()
	if c.sig < c.wtg {
		c.sig++
	}
	c.m.Unlock()
	zzsim.Progress()
}

func (c *Cond) Broadcast() {
	c.m.Lock()
	c.gen++
	c.sig = 0
	c.m.Unlock()
	zzsim.Progress()
}

// Pool is a deterministic stand-in for sync.Pool (whose per-P caches and random
// drops under the race detector would break replay). Items are reused LIFO —
// the schedule that exposes incomplete resets most often — unless the
// simulator's fault stream says "miss", which sync.Pool is always allowed to do.
// A real mutex provides the Put -> Get happens-before edge sync.Pool has.
type Pool struct {
	New   func() interface{}
	m     sync.Mutex
	items []interface{}
}

func (p *Pool) Get() interface{} {
	var x interface{}
	p.m.Lock()
	if n := len(p.items); n > 0 {
		if !zzsim.Active() || zzsim.Fault(8) != 0 {
			x = p.items[n-1]
			p.items = p.items[:n-1]
		} else {
			zzsim.AddProbe(zzsim.ProbePoolMiss, 1)
		}
	}
	p.m.Unlock()
	if x == nil && p.New != nil {
		x = p.New()
	}
	return x
}

func (p *Pool) Put(x interface{}) {
	if x == nil {
		return
	}
	p.m.Lock()
	if zzsim.Active() && zzsim.Fault(16) == 0 {
		zzsim.AddProbe(zzsim.ProbePoolDrop, 1) // dropped, as sync.Pool may
	} else {
		p.items = append(p.items, x)
	}
	p.m.Unlock()
}
