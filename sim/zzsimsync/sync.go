// Package zzsimsync replaces "sync" in the instrumented copy: same API, real
// primitives underneath (so the race detector sees their happens-before edges),
// but a primitive that would block yields to the simulator instead of blocking
// the goroutine that holds the run token.
package zzsimsync

import (
	"sort"
	"sync"

	"github.com/z7zmey/php-parser/pkg/zzsim"
)

type Locker = sync.Locker

// rel / acq are the reserved yield points of the "sync" site class: the
// scheduler may preempt right after a primitive was released and right before
// one is acquired.
func rel() { zzsim.Y(zzsim.SiteSyncRel) }
func acq() { zzsim.Y(zzsim.SiteSyncAcq) }

// Map is sync.Map (its own, precise happens-before edges are kept) with a
// yield point behind every operation and a Range that visits basic-typed keys
// in sorted order (sync.Map.Range follows Go map iteration order, which would
// make runs unrepeatable).
type Map struct{ m sync.Map }

func (m *Map) Load(k interface{}) (interface{}, bool) { v, ok := m.m.Load(k); rel(); return v, ok }
func (m *Map) Store(k, v interface{})                 { m.m.Store(k, v); rel() }
func (m *Map) LoadOrStore(k, v interface{}) (interface{}, bool) {
	a, l := m.m.LoadOrStore(k, v)
	rel()
	return a, l
}
func (m *Map) LoadAndDelete(k interface{}) (interface{}, bool) {
	v, l := m.m.LoadAndDelete(k)
	rel()
	return v, l
}
func (m *Map) Delete(k interface{}) { m.m.Delete(k); rel() }
func (m *Map) Swap(k, v interface{}) (interface{}, bool) {
	p, l := m.m.Swap(k, v)
	rel()
	return p, l
}
func (m *Map) CompareAndSwap(k, o, n interface{}) bool {
	r := m.m.CompareAndSwap(k, o, n)
	rel()
	return r
}
func (m *Map) CompareAndDelete(k, o interface{}) bool {
	r := m.m.CompareAndDelete(k, o)
	rel()
	return r
}
func (m *Map) Range(f func(k, v interface{}) bool) {
	type kv struct {
		k, v interface{}
		c    byte
		n    uint64
		s    string
	}
	var all []kv
	sortable := true
	m.m.Range(func(k, v interface{}) bool {
		e := kv{k: k, v: v}
		switch x := k.(type) {
		case string:
			e.c, e.s = 1, x
		case int:
			e.c, e.n = 2, uint64(int64(x))^(1<<63)
		case int64:
			e.c, e.n = 2, uint64(x)^(1<<63)
		case int32:
			e.c, e.n = 2, uint64(int64(x))^(1<<63)
		case uint:
			e.c, e.n = 3, uint64(x)
		case uint64:
			e.c, e.n = 3, x
		case uint32:
			e.c, e.n = 3, uint64(x)
		default:
			sortable = false
		}
		all = append(all, e)
		return true
	})
	if sortable {
		sort.SliceStable(all, func(i, j int) bool {
			a, b := &all[i], &all[j]
			if a.c != b.c {
				return a.c < b.c
			}
			if a.n != b.n {
				return a.n < b.n
			}
			return a.s < b.s
		})
	}
	for _, e := range all {
		rel()
		if !f(e.k, e.v) {
			break
		}
	}
	rel()
}

type Mutex struct{ m sync.Mutex }

func (m *Mutex) Lock() {
	acq()
	for !m.m.TryLock() {
		zzsim.Blocked()
	}
	zzsim.Held(1)
	zzsim.Progress()
}
func (m *Mutex) TryLock() bool {
	ok := m.m.TryLock()
	if ok {
		zzsim.Held(1)
	}
	return ok
}
func (m *Mutex) Unlock() { m.m.Unlock(); zzsim.Held(-1); zzsim.Progress(); rel() }

type RWMutex struct{ m sync.RWMutex }

func (m *RWMutex) Lock() {
	acq()
	for !m.m.TryLock() {
		zzsim.Blocked()
	}
	zzsim.Held(1)
	zzsim.Progress()
}
func (m *RWMutex) TryLock() bool {
	ok := m.m.TryLock()
	if ok {
		zzsim.Held(1)
	}
	return ok
}
func (m *RWMutex) Unlock() { m.m.Unlock(); zzsim.Held(-1); zzsim.Progress(); rel() }
func (m *RWMutex) RLock() {
	acq()
	for !m.m.TryRLock() {
		zzsim.Blocked()
	}
	zzsim.Held(1)
	zzsim.Progress()
}
func (m *RWMutex) TryRLock() bool {
	ok := m.m.TryRLock()
	if ok {
		zzsim.Held(1)
	}
	return ok
}
func (m *RWMutex) RUnlock() { m.m.RUnlock(); zzsim.Held(-1); zzsim.Progress(); rel() }
func (m *RWMutex) RLocker() Locker { return (*rlocker)(m) }

type rlocker RWMutex

func (r *rlocker) Lock()   { (*RWMutex)(r).RLock() }
func (r *rlocker) Unlock() { (*RWMutex)(r).RUnlock() }

type Once struct {
	m    Mutex
	done bool
}

func (o *Once) Do(f func()) {
	o.m.Lock()
	defer o.m.Unlock()
	if !o.done {
		defer func() { o.done = true }()
		f()
	}
}

type WaitGroup struct {
	m sync.Mutex
	n int
}

func (w *WaitGroup) Add(d int) {
	w.m.Lock()
	w.n += d
	if w.n < 0 {
		w.m.Unlock()
		panic("sync: negative WaitGroup counter")
	}
	w.m.Unlock()
	zzsim.Progress()
	if d < 0 {
		rel()
	}
}
func (w *WaitGroup) Done() { w.Add(-1) }
func (w *WaitGroup) Wait() {
	for {
		w.m.Lock()
		z := w.n == 0
		w.m.Unlock()
		if z {
			zzsim.Progress()
			return
		}
		zzsim.Blocked()
	}
}

// Cond: Wait releases L, yields until a later Signal/Broadcast, re-acquires L.
type Cond struct {
	L   Locker
	m   sync.Mutex
	gen uint64 // incremented by Broadcast
	sig uint64 // outstanding Signal tickets
	wtg uint64 // waiters
}

func NewCond(l Locker) *Cond { return &Cond{L: l} }

func (c *Cond) Wait() {
	c.m.Lock()
	g := c.gen
	c.wtg++
	c.m.Unlock()
	c.L.Unlock()
	for {
		c.m.Lock()
		ok := c.gen != g
		if !ok && c.sig > 0 {
			c.sig--
			ok = true
		}
		if ok {
			c.wtg--
		}
		c.m.Unlock()
		if ok {
			break
		}
		zzsim.Blocked()
	}
	zzsim.Progress()
	c.L.Lock()
}

func (c *Cond) Signal() {
	c.m.Lock()
	if c.sig < c.wtg {
		c.sig++
	}
	c.m.Unlock()
	zzsim.Progress()
}

func (c *Cond) Broadcast() {
	c.m.Lock()
	c.gen++
	c.sig = 0
	c.m.Unlock()
	zzsim.Progress()
}

// Pool is a deterministic stand-in for sync.Pool (whose per-P caches and random
// drops under the race detector would break replay). Items are reused LIFO —
// the schedule that exposes incomplete resets most often — unless the
// simulator's fault stream says "miss", which sync.Pool is always allowed to do.
// A real mutex provides the Put -> Get happens-before edge sync.Pool has.
type Pool struct {
	New   func() interface{}
	m     sync.Mutex
	items []interface{}
}

func (p *Pool) Get() interface{} {
	var x interface{}
	p.m.Lock()
	if n := len(p.items); n > 0 {
		if !zzsim.Active() || zzsim.Fault(8) != 0 {
			x = p.items[n-1]
			p.items = p.items[:n-1]
		} else {
			zzsim.AddProbe(zzsim.ProbePoolMiss, 1)
		}
	}
	p.m.Unlock()
	rel()
	if x == nil && p.New != nil {
		x = p.New()
	}
	return x
}

func (p *Pool) Put(x interface{}) {
	if x == nil {
		return
	}
	p.m.Lock()
	if zzsim.Active() && zzsim.Fault(16) == 0 {
		zzsim.AddProbe(zzsim.ProbePoolDrop, 1) // dropped, as sync.Pool may
	} else {
		p.items = append(p.items, x)
	}
	p.m.Unlock()
	rel()
}

// Clear (Go 1.23).
func (m *Map) Clear() { m.m.Clear(); rel() }

// OnceFunc, OnceValue, OnceValues (Go 1.21), over the simulated Once. Like
// the originals they re-panic on every call if f panicked.
func OnceFunc(f func()) func() {
	var once Once
	var valid bool
	var p interface{}
	g := func() {
		defer func() {
			p = recover()
			if !valid {
				panic(p)
			}
		}()
		f()
		f = nil
		valid = true
	}
	return func() {
		once.Do(g)
		if !valid {
			panic(p)
		}
	}
}
